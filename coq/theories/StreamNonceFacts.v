(** StreamNonceFacts.v — stream.Writer never seals two chunks under the same
    nonce: for EVERY history of Write/Close calls (in any order, including
    calls made after a failure or after Close) and EVERY pattern of
    destination failures.  Lemmas only; nothing is assumed about [seal]. *)

From Age Require Import Base IO Stream StreamFacts.
From Coq Require Import ZifyN ZifyNat ZifyBool.
Local Open Scope nat_scope.

#[local] Arguments ctr_limit : simpl never.
Local Opaque ctr_limit.

(** * Lists *)

Lemma snf_tl_skipn : forall (A : Type) (n : nat) (l : list A),
  tl (skipn n l) = skipn (S n) l.
Proof.
  intros A n. induction n as [|n IH]; intros l.
  - destruct l; reflexivity.
  - destruct l as [|x l]; [reflexivity|]. cbn [skipn] in *. apply IH.
Qed.

Lemma snf_hd_skipn : forall (A : Type) (d : A) (n : nat) (l : list A),
  hd d (skipn n l) = nth n l d.
Proof.
  intros A d n. induction n as [|n IH]; intros l.
  - destruct l; reflexivity.
  - destruct l as [|x l]; [reflexivity|]. cbn [skipn nth]. apply IH.
Qed.

Lemma snf_nth_error_snoc : forall (A : Type) (l : list A) (x t : A) (i : nat),
  nth_error (l ++ [x]) i = Some t ->
  (i < length l /\ nth_error l i = Some t) \/ (i = length l /\ t = x).
Proof.
  intros A l x t i H. destruct (Nat.lt_ge_cases i (length l)) as [Hlt|Hge].
  - left. split; [exact Hlt|]. rewrite nth_error_app1 in H by exact Hlt. exact H.
  - right. rewrite nth_error_app2 in H by exact Hge.
    destruct (i - length l) as [|k] eqn:E.
    + cbn [nth_error] in H. inversion H. split; [lia|reflexivity].
    + cbn [nth_error] in H. destruct k; discriminate H.
Qed.

(** * Operations on the writer *)

Inductive wop := OpWrite (p : bytes) | OpClose.

(** A chunk of the trace: counter, final flag, plaintext. *)
Notation tchunk := (N * bool * bytes)%type (only parsing).
Definition t_nonce (t : tchunk) : bytes := nonce_of (fst (fst t)) (snd (fst t)).

Lemma trace_nonces_nodup : forall tr : list tchunk,
  (forall i t, nth_error tr i = Some t -> fst (fst t) = N.of_nat i) ->
  (N.of_nat (length tr) <= ctr_limit)%N ->
  NoDup (map t_nonce tr).
Proof.
  intros tr Hc Hl. apply NoDup_nth_error. intros i j Hi E.
  rewrite map_length in Hi. rewrite !nth_error_map in E.
  destruct (nth_error tr i) as [ti|] eqn:Ei; [|apply nth_error_None in Ei; lia].
  destruct (nth_error tr j) as [tj|] eqn:Ej; cbn [option_map] in E; [|discriminate E].
  assert (Hj : j < length tr) by (apply nth_error_Some; congruence).
  pose proof (Hc i ti Ei) as Ci. pose proof (Hc j tj Ej) as Cj.
  assert (En : t_nonce ti = t_nonce tj) by congruence. unfold t_nonce in En.
  apply nonce_of_inj in En; [|lia|lia]. destruct En as [En _]. lia.
Qed.

Section NonceFresh.
  Variable cs : nat.
  Variable seal : bytes -> bytes -> bytes.

  (** The destination: logs every buffer it is OFFERED (also the ones it then
      fails), and follows a plan of verdicts (exhausted plan = success). *)
  Definition lsink := (list bytes * list bool)%type.
  Definition lwrite (d : lsink) (b : bytes) : lsink * bool :=
    ((fst d ++ [b], tl (snd d)), hd true (snd d)).

  Definition w_op (st : wstate * lsink) (o : wop) : res (wstate * lsink) :=
    match o with
    | OpWrite p =>
        let* (w', d', _) := w_write cs seal lsink lwrite (fst st) (snd st) p in Ok (w', d')
    | OpClose =>
        let* (w', d', _) := w_close cs seal lsink lwrite (fst st) (snd st) in Ok (w', d')
    end.
  Fixpoint w_ops (st : wstate * lsink) (ops : list wop) : res (wstate * lsink) :=
    match ops with
    | [] => Ok st
    | o :: r => let* st' := w_op st o in w_ops st' r
    end.

  Definition t_seal (t : tchunk) : bytes := seal (t_nonce t) (snd t).

  (** ** One flush *)

  Lemma w_flush_ok : forall last w d w2 d2 ok,
    w_flush cs seal lsink lwrite last w d = Ok (w2, d2, ok) ->
    w2 = mkW [] (w_ctr w + 1)%N (w_st w) /\
    d2 = (fst d ++ [seal (nonce_of (w_ctr w) last) (w_buf w)], tl (snd d)) /\
    ok = hd true (snd d) /\
    (w_ctr w + 1 <> ctr_limit)%N.
  Proof.
    intros last w d w2 d2 ok H. unfold w_flush in H.
    destruct (negb last && negb (Nat.eqb (length (w_buf w)) cs)); [discriminate H|].
    unfold lwrite in H. cbv beta iota in H.
    destruct (N.eqb (w_ctr w + 1) ctr_limit) eqn:E; [discriminate H|].
    apply N.eqb_neq in E. inversion H. subst. auto.
  Qed.

  (** ** The invariant.  [P] is the whole plan the destination started with. *)

  Definition Inv (P : list bool) (w : wstate) (d : lsink) : Prop :=
    exists tr : list tchunk,
      fst d = map t_seal tr /\
      snd d = skipn (length tr) P /\
      (forall i t, nth_error tr i = Some t -> fst (fst t) = N.of_nat i) /\
      w_ctr w = N.of_nat (length tr) /\
      (w_ctr w < ctr_limit)%N /\
      (forall i t, nth_error tr i = Some t ->
         snd (fst t) = true \/ nth i P true = false ->
         S i = length tr /\ w_st w <> WOpen).

  Lemma Inv_init : forall P, Inv P w_init ([], P).
  Proof.
    intros P. exists []. cbn [fst snd map length skipn w_init w_ctr].
    repeat split; try reflexivity; try apply ctr_limit_pos;
      try (intros i t H; destruct i; discriminate H);
      destruct i; discriminate H.
  Qed.

  Lemma Inv_same : forall P w w' d,
    Inv P w d -> w_ctr w' = w_ctr w -> w_st w' = w_st w -> Inv P w' d.
  Proof.
    intros P w w' d [tr H] Hc Hs. exists tr. rewrite Hc, Hs. exact H.
  Qed.

  Lemma Inv_flush : forall P last w d w2 d2 ok s,
    Inv P w d -> w_st w = WOpen ->
    w_flush cs seal lsink lwrite last w d = Ok (w2, d2, ok) ->
    (last = true \/ ok = false -> s <> WOpen) ->
    Inv P (mkW (w_buf w2) (w_ctr w2) s) d2.
  Proof.
    intros P last w d w2 d2 ok s [tr (Hlog & Hplan & Hctrs & Hc & Hlim & Hstop)] Hopen Hf Hs.
    apply w_flush_ok in Hf. destruct Hf as (Ew & Ed & Eok & Hne). subst w2 d2.
    exists (tr ++ [(w_ctr w, last, w_buf w)]).
    cbn [fst snd w_ctr w_st w_buf].
    assert (Hlen : length (tr ++ [(w_ctr w, last, w_buf w)]) = S (length tr))
      by (rewrite app_length; cbn [length]; lia).
    rewrite Hlen. repeat split.
    - rewrite map_app, Hlog. reflexivity.
    - rewrite Hplan. apply snf_tl_skipn.
    - intros i t Hi. apply snf_nth_error_snoc in Hi. destruct Hi as [[_ Hi]|[Hi Ht]].
      + exact (Hctrs i t Hi).
      + subst i t. cbn [fst]. exact Hc.
    - lia.
    - lia.
    - apply snf_nth_error_snoc in H. destruct H as [[_ Hi]|[Hi Ht]].
      + exfalso. destruct (Hstop i t Hi H0) as [_ Hn]. exact (Hn Hopen).
      + lia.
    - apply snf_nth_error_snoc in H. destruct H as [[_ Hi]|[Hi Ht]].
      + exfalso. destruct (Hstop i t Hi H0) as [_ Hn]. exact (Hn Hopen).
      + subst i t. apply Hs. cbn [fst snd] in H0. destruct H0 as [H0|H0]; [left; exact H0|].
        right. rewrite Eok, Hplan. rewrite snf_hd_skipn. exact H0.
  Qed.

  (** ** The loop of Write *)

  Lemma Inv_loop : forall P fuel w d p w' d' ok,
    Inv P w d -> w_st w = WOpen ->
    w_loop cs seal lsink lwrite fuel w d p = Ok (w', d', ok) ->
    Inv P w' d'.
  Proof.
    intros P fuel. induction fuel as [|f IH]; intros w d p w' d' ok HI Hopen H.
    - destruct p as [|x p0]; cbn [w_loop] in H; [|discriminate H].
      inversion H. subst. exact HI.
    - destruct p as [|x p0]; cbn [w_loop] in H.
      + inversion H. subst. exact HI.
      + cbv zeta in H.
        set (w1 := mkW (w_buf w ++ firstn (cs - length (w_buf w)) (x :: p0)) (w_ctr w) (w_st w)) in *.
        assert (HI1 : Inv P w1 d) by (apply (Inv_same P w w1 d HI); reflexivity).
        assert (Hopen1 : w_st w1 = WOpen) by exact Hopen.
        destruct (skipn (cs - length (w_buf w)) (x :: p0)) as [|y p'] eqn:Ep.
        * inversion H. subst. exact HI1.
        * destruct (Nat.eqb (length (w_buf w1)) cs).
          -- destruct (w_flush cs seal lsink lwrite false w1 d) as [[[w2 d2] ok2]| |] eqn:Ef;
               cbn [bind] in H; try discriminate H.
             destruct ok2.
             ++ pose proof (Inv_flush P false w1 d w2 d2 true WOpen HI1 Hopen1 Ef) as HI2.
                assert (Hopen2 : w_st w2 = WOpen).
                { apply w_flush_ok in Ef. destruct Ef as (Ew & _). rewrite Ew. exact Hopen1. }
                apply (IH w2 d2 (y :: p') w' d' ok); [|exact Hopen2|exact H].
                apply (Inv_same P _ w2 d2 (HI2 ltac:(intros [X|X]; discriminate X)));
                  [reflexivity|cbn [w_st]; exact Hopen2].
             ++ inversion H. subst.
                apply (Inv_flush P false w1 d w2 d' false WFailed HI1 Hopen1 Ef).
                intros _ X. discriminate X.
          -- exact (IH w1 d (y :: p') w' d' ok HI1 Hopen1 H).
  Qed.

  (** ** Write, Close, and histories *)

  Lemma Inv_write : forall P w d p w' d' r,
    Inv P w d ->
    w_write cs seal lsink lwrite w d p = Ok (w', d', r) ->
    Inv P w' d'.
  Proof.
    intros P w d p w' d' r HI H. unfold w_write in H.
    destruct (w_st w) eqn:Es; try (inversion H; subst; exact HI).
    destruct p as [|x p0]; [inversion H; subst; exact HI|].
    destruct (w_loop cs seal lsink lwrite (S (length (x :: p0))) w d (x :: p0))
      as [[[w1 d1] ok1]| |] eqn:El; cbn [bind] in H; try discriminate H.
    inversion H. subst. exact (Inv_loop P _ w d _ w' d' ok1 HI Es El).
  Qed.

  Lemma Inv_close : forall P w d w' d' ok,
    Inv P w d ->
    w_close cs seal lsink lwrite w d = Ok (w', d', ok) ->
    Inv P w' d'.
  Proof.
    intros P w d w' d' ok HI H. unfold w_close in H.
    destruct (w_st w) eqn:Es; try (inversion H; subst; exact HI).
    destruct (w_flush cs seal lsink lwrite true w d) as [[[w1 d1] ok1]| |] eqn:Ef;
      cbn [bind] in H; try discriminate H.
    inversion H. subst.
    apply (Inv_flush P true w d w1 d' ok _ HI Es Ef).
    intros _. destruct ok; intros X; discriminate X.
  Qed.

  Lemma Inv_op : forall P st o st',
    Inv P (fst st) (snd st) -> w_op st o = Ok st' -> Inv P (fst st') (snd st').
  Proof.
    intros P st o st' HI H. destruct o as [p|]; cbn [w_op] in H.
    - destruct (w_write cs seal lsink lwrite (fst st) (snd st) p) as [[[w1 d1] r1]| |] eqn:E;
        cbn [bind] in H; try discriminate H.
      inversion H. subst. cbn [fst snd]. exact (Inv_write P _ _ _ _ _ _ HI E).
    - destruct (w_close cs seal lsink lwrite (fst st) (snd st)) as [[[w1 d1] r1]| |] eqn:E;
        cbn [bind] in H; try discriminate H.
      inversion H. subst. cbn [fst snd]. exact (Inv_close P _ _ _ _ _ HI E).
  Qed.

  Lemma Inv_ops : forall P ops st st',
    Inv P (fst st) (snd st) -> w_ops st ops = Ok st' -> Inv P (fst st') (snd st').
  Proof.
    intros P ops. induction ops as [|o r IH]; intros st st' HI H; cbn [w_ops] in H.
    - inversion H. subst. exact HI.
    - destruct (w_op st o) as [st1| |] eqn:E; cbn [bind] in H; try discriminate H.
      exact (IH st1 st' (Inv_op P st o st1 HI E) H).
  Qed.

  (** ** A writer that is not open does nothing at all. *)

  Lemma w_op_stopped : forall st o,
    w_st (fst st) <> WOpen -> w_op st o = Ok st.
  Proof.
    intros [w d] o Hs. cbn [fst] in Hs.
    destruct o as [p|]; cbn [w_op fst snd]; unfold w_write, w_close;
      destruct (w_st w); try (exfalso; apply Hs; reflexivity); reflexivity.
  Qed.

  Lemma w_ops_stopped : forall ops st,
    w_st (fst st) <> WOpen -> w_ops st ops = Ok st.
  Proof.
    intros ops. induction ops as [|o r IH]; intros st Hs; cbn [w_ops]; [reflexivity|].
    rewrite (w_op_stopped st o Hs). cbn [bind]. exact (IH st Hs).
  Qed.

  (** ** Main theorems *)

  Theorem writer_nonces_fresh :
    forall (ops : list wop) (plan : list bool) (w : wstate) (log : list bytes) (plan' : list bool),
      w_ops (w_init, ([], plan)) ops = Ok (w, (log, plan')) ->
      exists tr : list (N * bool * bytes),
        log = map (fun t => seal (nonce_of (fst (fst t)) (snd (fst t))) (snd t)) tr /\
        (forall i t, nth_error tr i = Some t -> fst (fst t) = N.of_nat i) /\
        w_ctr w = N.of_nat (length tr) /\
        (w_ctr w < ctr_limit)%N /\
        (forall t, In t tr -> (fst (fst t) < ctr_limit)%N) /\
        NoDup (map (fun t => nonce_of (fst (fst t)) (snd (fst t))) tr).
  Proof.
    intros ops plan w log plan' H.
    pose proof (Inv_ops plan ops (w_init, ([], plan)) (w, (log, plan')) (Inv_init plan) H) as HI. cbn [fst snd] in HI.
    destruct HI as [tr (Hlog & Hplan & Hctrs & Hc & Hlim & Hstop)].
    cbn [fst snd] in Hlog, Hplan, Hc, Hlim, Hstop.
    exists tr. repeat split.
    - exact Hlog.
    - exact Hctrs.
    - exact Hc.
    - exact Hlim.
    - intros t Ht. apply In_nth_error in Ht. destruct Ht as [i Hi].
      rewrite (Hctrs i t Hi).
      assert (i < length tr) by (apply nth_error_Some; rewrite Hi; discriminate). lia.
    - apply (trace_nonces_nodup tr Hctrs). lia.
  Qed.

  (** Nothing is sealed after a Close (successful or not), nor after a failed
      destination write: a chunk with the final flag, and a buffer the
      destination refused, can only be the LAST thing ever offered; and then
      the writer is not open, so every later call is a no-op. *)
  Theorem writer_seals_stop :
    forall (ops : list wop) (plan : list bool) (w : wstate) (log : list bytes) (plan' : list bool),
      w_ops (w_init, ([], plan)) ops = Ok (w, (log, plan')) ->
      exists tr : list (N * bool * bytes),
        log = map (fun t => seal (nonce_of (fst (fst t)) (snd (fst t))) (snd t)) tr /\
        (forall i t, nth_error tr i = Some t -> fst (fst t) = N.of_nat i) /\
        w_ctr w = N.of_nat (length tr) /\
        length log = length tr /\
        plan' = skipn (length log) plan /\
        (forall i t, nth_error tr i = Some t -> snd (fst t) = true ->
           S i = length tr /\ w_st w <> WOpen) /\
        (forall i, i < length log -> nth i plan true = false ->
           S i = length log /\ w_st w <> WOpen) /\
        (w_st w <> WOpen -> forall more, w_ops (w, (log, plan')) more = Ok (w, (log, plan'))).
  Proof.
    intros ops plan w log plan' H.
    pose proof (Inv_ops plan ops (w_init, ([], plan)) (w, (log, plan')) (Inv_init plan) H) as HI. cbn [fst snd] in HI.
    destruct HI as [tr (Hlog & Hplan & Hctrs & Hc & Hlim & Hstop)].
    cbn [fst snd] in Hlog, Hplan, Hc, Hlim, Hstop.
    assert (Hlen : length log = length tr) by (rewrite Hlog; apply map_length).
    exists tr. rewrite Hlen. repeat split; try assumption.
    - exact (proj1 (Hstop i t H0 (or_introl H1))).
    - exact (proj2 (Hstop i t H0 (or_introl H1))).
    - destruct (nth_error tr i) as [t|] eqn:Ei; [|apply nth_error_None in Ei; lia].
      exact (proj1 (Hstop i t Ei (or_intror H1))).
    - destruct (nth_error tr i) as [t|] eqn:Ei; [|apply nth_error_None in Ei; lia].
      exact (proj2 (Hstop i t Ei (or_intror H1))).
    - intros Hs more. apply w_ops_stopped. exact Hs.
  Qed.
End NonceFresh.

(** * Sanity: a seal that tags the ciphertext with its nonce *)

Corollary tagged_log_nodup :
  forall (cs : nat) (ops : list wop) (plan : list bool) (w : wstate) (log : list bytes) (plan' : list bool),
    w_ops cs (fun n p => n ++ p) (w_init, ([], plan)) ops = Ok (w, (log, plan')) ->
    NoDup (map (firstn 12) log).
Proof.
  intros cs ops plan w log plan' H.
  apply writer_nonces_fresh in H. destruct H as [tr (Hlog & _ & _ & _ & _ & Hnd)].
  rewrite Hlog, map_map.
  erewrite map_ext; [exact Hnd|].
  intros t. cbv beta. apply firstn_app_exact. apply length_nonce_of.
Qed.

(** * Non-vacuity: concrete histories (cs = 4, tagging seal), by computation *)

Definition ex_tag (n p : bytes) : bytes := n ++ p.
Definition ex_b6 : bytes := [x01; x01; x01; x01; x01; x01].
Definition ex_b3 : bytes := [x00; x00; x00].
Definition ex_b2 : bytes := [x01; x00].
Definition ex_ops : list wop :=
  [OpWrite ex_b6; OpWrite ex_b3; OpClose; OpClose; OpWrite ex_b2].

(** The second destination write fails (during the second Write): two buffers
    were offered, under counters 0 and 1; the two Closes and the Write that
    the caller retries afterwards seal nothing. *)
Example ex_second_write_fails :
  w_ops 4 ex_tag (w_init, ([], [true; false])) ex_ops
  = Ok (mkW [] 2 WFailed,
        ([ex_tag (nonce_of 0 false) [x01; x01; x01; x01];
          ex_tag (nonce_of 1 false) [x01; x01; x00; x00]], [])).
Proof. vm_compute. reflexivity. Qed.

(** The first destination write fails: exactly one buffer is ever offered;
    the state after the first Write is already the final state. *)
Example ex_first_write_fails :
  w_ops 4 ex_tag (w_init, ([], [false])) ex_ops
  = Ok (mkW [] 1 WFailed, ([ex_tag (nonce_of 0 false) [x01; x01; x01; x01]], []))
  /\ w_ops 4 ex_tag (w_init, ([], [false])) [OpWrite ex_b6]
     = w_ops 4 ex_tag (w_init, ([], [false])) ex_ops.
Proof. split; vm_compute; reflexivity. Qed.

(** No failure: the first Close seals the final chunk (counter 2, flag set);
    the second Close and the late Write seal nothing. *)
Example ex_no_failure :
  w_ops 4 ex_tag (w_init, ([], [true; true; true; true])) ex_ops
  = Ok (mkW [] 3 WClosed,
        ([ex_tag (nonce_of 0 false) [x01; x01; x01; x01];
          ex_tag (nonce_of 1 false) [x01; x01; x00; x00];
          ex_tag (nonce_of 2 true) [x00]], [true])).
Proof. vm_compute. reflexivity. Qed.

Example ex_nonces_distinct :
  forall w log plan',
    w_ops 4 ex_tag (w_init, ([], [true; false])) ex_ops = Ok (w, (log, plan')) ->
    length log = 2 /\ NoDup (map (firstn 12) log).
Proof.
  intros w log plan' H. split.
  - rewrite ex_second_write_fails in H. inversion H. reflexivity.
  - exact (tagged_log_nodup 4 ex_ops [true; false] w log plan' H).
Qed.

Print Assumptions writer_nonces_fresh.
Print Assumptions writer_seals_stop.
Print Assumptions tagged_log_nodup.
