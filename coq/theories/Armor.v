(** Armor.v — model of armor/armor.go (with format.WrappedBase64Encoder and the
    streaming encoder of encoding/base64 it is built on).

    Writer: the code's state machine over an abstract downstream writer, with
    the exact sequence of downstream Write calls (so that a failure of any of
    them can be placed).  Reader: the code's state machine over the lines that
    bufio.ReadBytes('\n') yields, with the documented tolerances. *)

From Age Require Import Base Base64 IO Stream.

Definition armor_header : bytes := Eval cbv in bs "-----BEGIN AGE ENCRYPTED FILE-----".
Definition armor_footer : bytes := Eval cbv in bs "-----END AGE ENCRYPTED FILE-----".

Definition columns : nat := 64.
Definition line_bytes : nat := 48.

(** * Specification of the encoder: the armor of a byte string *)

Definition armor_body (b : bytes) : bytes :=
  concat (map (fun l => l ++ [LF]) (chunks columns (b64_enc_std b))).

Definition armor_bytes (b : bytes) : bytes :=
  armor_header ++ [LF] ++ armor_body b ++ armor_footer ++ [LF].

(** * Writer *)

(** WrappedBase64Encoder.writeWrapped on one chunk of base64 text: insert LF
    after every 64th column.  [col] = written mod 64. *)
Fixpoint wrap_chunk (col : nat) (p : bytes) : bytes * nat :=
  match p with
  | [] => ([], col)
  | c :: rest =>
      if Nat.eqb (S col) columns
      then let (o, col') := wrap_chunk 0 rest in (c :: LF :: o, col')
      else let (o, col') := wrap_chunk (S col) rest in (c :: o, col')
  end.

Record awstate := mkAW {
  aw_started : bool;
  aw_closed  : bool;
  aw_carry   : bytes;     (* base64 encoder: 0..2 pending input bytes *)
  aw_eerr    : bool;      (* base64 encoder: sticky error *)
  aw_col     : nat        (* WrappedBase64Encoder.written mod 64 *)
}.
Definition aw_init : awstate := mkAW false false [] false 0.

Definition b64_block : nat := 768.   (* len(e.out)/4*3 with out [1024]byte *)

Section ArmorWriter.
  Variable D : Type.
  Variable dwrite : D -> bytes -> D * bool.

  (** One call of writeWrapped: wrap and hand to dst in ONE Write call. *)
  Definition aw_emit (a : awstate) (d : D) (text : bytes) : awstate * D * bool :=
    let (o, col') := wrap_chunk (aw_col a) text in
    let (d', ok) := dwrite d o in
    (mkAW (aw_started a) (aw_closed a) (aw_carry a) (negb ok) col', d', ok).

  (** "Large interior chunks" loop of base64's encoder.Write. *)
  Fixpoint aw_interior (fuel : nat) (a : awstate) (d : D) (p : bytes) : awstate * D * bool :=
    match fuel with
    | O => (a, d, false)                                   (* unreachable *)
    | S f =>
        if Nat.ltb (length p) 3 then
          (mkAW (aw_started a) (aw_closed a) p (aw_eerr a) (aw_col a), d, true)
        else
          let nn := if Nat.ltb (length p) b64_block
                    then length p - Nat.modulo (length p) 3 else b64_block in
          let '(a', d', ok) := aw_emit a d (b64_enc_std (firstn nn p)) in
          if ok then aw_interior f a' d' (skipn nn p) else (a', d', false)
    end.

  (** base64 encoder.Write *)
  Definition aw_enc_write (a : awstate) (d : D) (p : bytes) : awstate * D * bool :=
    if aw_eerr a then (a, d, false) else
    match aw_carry a with
    | [] => aw_interior (S (length p)) a d p
    | carry =>
        let k := Nat.min (3 - length carry) (length p) in
        let carry' := carry ++ firstn k p in
        let p' := skipn k p in
        if Nat.ltb (length carry') 3 then
          (mkAW (aw_started a) (aw_closed a) carry' (aw_eerr a) (aw_col a), d, true)
        else
          let '(a', d', ok) := aw_emit a d (b64_enc_std carry') in
          if ok then
            aw_interior (S (length p')) (mkAW (aw_started a') (aw_closed a') [] false (aw_col a')) d' p'
          else (a', d', false)
    end.

  (** armoredWriter.Write *)
  Definition aw_write (a : awstate) (d : D) (p : bytes) : awstate * D * bool :=
    if aw_started a then aw_enc_write a d p else
    let (d', ok) := dwrite d (armor_header ++ [LF]) in
    if ok then
      aw_enc_write (mkAW true (aw_closed a) (aw_carry a) (aw_eerr a) (aw_col a)) d' p
    else (a, d', false).

  (** armoredWriter.Close *)
  Definition aw_close (a : awstate) (d : D) : awstate * D * bool :=
    if aw_closed a then (a, d, false) else
    let a0 := mkAW (aw_started a) true (aw_carry a) (aw_eerr a) (aw_col a) in
    let '(a1, d1, ok1) :=
      if aw_started a0 then (a0, d, true)
      else let (d', ok) := dwrite d (armor_header ++ [LF]) in
           (mkAW ok true (aw_carry a0) (aw_eerr a0) (aw_col a0), d', ok) in
    if negb ok1 then (a1, d1, false) else
    (* encoder.Close *)
    let '(a2, d2, ok2) :=
      if aw_eerr a1 then (a1, d1, false)
      else match aw_carry a1 with
           | [] => (a1, d1, true)
           | carry =>
               let '(a', d', ok) := aw_emit a1 d1 (b64_enc_std carry) in
               (mkAW (aw_started a') (aw_closed a') [] (aw_eerr a') (aw_col a'), d', ok)
           end in
    if negb ok2 then (a2, d2, false) else
    let footer := (if Nat.eqb (aw_col a2) 0 then [] else [LF]) ++ armor_footer ++ [LF] in
    let (d3, ok3) := dwrite d2 footer in
    (a2, d3, ok3).

  (** Writes then Close; per-operation results. *)
  Fixpoint aw_run (a : awstate) (d : D) (ws : list bytes) (acc : list bool)
    : awstate * D * list bool :=
    match ws with
    | [] => let '(a', d', ok) := aw_close a d in (a', d', acc ++ [ok])
    | p :: rest =>
        let '(a', d', ok) := aw_write a d p in aw_run a' d' rest (acc ++ [ok])
    end.
End ArmorWriter.

(** Armoring into a byte accumulator that accepts everything. *)
Definition armor_run (ws : list bytes) : bytes :=
  let '(_, d, _) := aw_run bytes (fun d p => (d ++ p, true)) aw_init [] ws [] in d.

(** * Reader *)

(** bytes.TrimSpace(line) is empty: the line is a sequence of UTF-8 encodings
    of Unicode White_Space code points (unicode.IsSpace). *)
Definition ascii_space (c : byte) : bool :=
  match c with
  | x09 | x0a | x0b | x0c | x0d | x20 => true
  | _ => false
  end.

Fixpoint all_space (l : bytes) : bool :=
  match l with
  | [] => true
  | c :: r =>
      if ascii_space c then all_space r else
      match c, r with
      | xc2, x85 :: r' => all_space r'                      (* U+0085 *)
      | xc2, xa0 :: r' => all_space r'                      (* U+00A0 *)
      | xe1, x9a :: x80 :: r' => all_space r'               (* U+1680 *)
      | xe2, x80 :: c3 :: r' =>
          (match c3 with
           | x80 | x81 | x82 | x83 | x84 | x85 | x86 | x87 | x88 | x89 | x8a  (* U+2000..200A *)
           | xa8 | xa9 | xaf => true                        (* U+2028, 2029, 202F *)
           | _ => false
           end) && all_space r'
      | xe2, x81 :: x9f :: r' => all_space r'               (* U+205F *)
      | xe3, x80 :: x80 :: r' => all_space r'               (* U+3000 *)
      | _, _ => false
      end
  end.

Definition max_whitespace : nat := 1024.

(** bytes.TrimSuffix(line, "\r") after the LF has been removed *)
Fixpoint strip_cr (l : bytes) : bytes :=
  match l with
  | [] => []
  | [c] => if Byte.eqb c CR then [] else [c]
  | x :: r => x :: strip_cr r
  end.

(** The input as the reader sees it: [ls] = the text split at LF (so the last
    element is the unterminated tail), [fin] = how the source ends after
    delivering all of it (SEof, or SFail for a source that fails there). *)
Record arstate := mkAR {
  ar_started : bool;
  ar_unread  : bytes;
  ar_err     : option outcome;      (* r.err; CleanEOF = io.EOF *)
  ar_lines   : list bytes;
  ar_fin     : status
}.
Definition ar_init (text : bytes) (fin : status) : arstate :=
  mkAR false [] None (split_on LF text) fin.

(** getLine: [Some (line, rest)], or [None] for an error (unexpected EOF or
    the source's failure). *)
Definition get_line (ls : list bytes) (fin : status) : option (bytes * list bytes) :=
  match ls with
  | [] => None
  | [tail] =>
      match fin, tail with
      | SFail, _ => None              (* partial line + error: the error wins *)
      | _, [] => None                 (* io.EOF with no data *)
      | _, _ => Some (strip_cr tail, [])
      end
  | l :: rest => Some (strip_cr l, rest)
  end.

(** drainTrailing on the raw remainder *)
Definition drain_trailing (ls : list bytes) (fin : status) : outcome :=
  let rest := join_on LF ls in
  match fin with
  | SFail =>
      (* fewer than 1024 bytes before the failure: the read error; otherwise
         the first 1024 bytes decide, and both verdicts are errors *)
      Failed EArmor
  | _ =>
      let buf := firstn max_whitespace rest in
      if negb (all_space buf) then Failed EArmor
      else if Nat.eqb (length buf) max_whitespace then Failed EArmor
      else CleanEOF
  end.

(** The leading-whitespace loop (one Read call; the budget is local to it). *)
Fixpoint skip_leading (fuel : nat) (ls : list bytes) (fin : status) (removed : nat)
  : option (list bytes) :=      (* None = error; Some rest = header line consumed *)
  match fuel with
  | O => None
  | S f =>
      match get_line ls fin with
      | None => None
      | Some (line, rest) =>
          if all_space line then
            let removed' := removed + length line + 1 in
            if Nat.ltb max_whitespace removed' then None
            else skip_leading f rest fin removed'
          else if bytes_eqb line armor_header then Some rest
          else None
      end
  end.

Definition has_crlf (l : bytes) : bool := existsb (fun c => Byte.eqb c CR || Byte.eqb c LF) l.

(** armoredReader.Read with len(p) = cap. *)
Definition ar_read (cap : nat) (st : arstate) : res (bytes * option outcome * arstate) :=
  match ar_unread st with
  | _ :: _ =>
      Ok (firstn cap (ar_unread st), None,
          mkAR (ar_started st) (skipn cap (ar_unread st)) (ar_err st) (ar_lines st) (ar_fin st))
  | [] =>
      match ar_err st with
      | Some e => Ok ([], Some e, st)
      | None =>
          let fail (ls : list bytes) (started : bool) :=
            Ok ([], Some (Failed EArmor),
                mkAR started [] (Some (Failed EArmor)) ls (ar_fin st)) in
          (* for !r.started *)
          let lead := if ar_started st then Some (ar_lines st)
                      else skip_leading (S (length (ar_lines st))) (ar_lines st) (ar_fin st) 0 in
          match lead with
          | None => fail (ar_lines st) (ar_started st)
          | Some ls =>
              match get_line ls (ar_fin st) with
              | None => fail ls true
              | Some (line, rest) =>
                  if bytes_eqb line armor_footer then
                    let e := drain_trailing rest (ar_fin st) in
                    Ok ([], Some e, mkAR true [] (Some e) [] (ar_fin st))
                  else if Nat.ltb columns (length line) then fail rest true
                  else if Nat.eqb (length line) 0 then fail rest true
                  else if has_crlf line then fail rest true
                  else
                    match b64_dec_std line with
                    | None => fail rest true
                    | Some b =>
                        if Nat.ltb line_bytes (length b) then Panic 3   (* Decode into buf[48] *)
                        else if Nat.ltb (length b) line_bytes then
                          match get_line rest (ar_fin st) with
                          | None => fail rest true
                          | Some (line2, rest2) =>
                              if bytes_eqb line2 armor_footer then
                                let e := drain_trailing rest2 (ar_fin st) in
                                Ok (firstn cap b, None,
                                    mkAR true (skipn cap b) (Some e) [] (ar_fin st))
                              else fail rest2 true
                          end
                        else
                          Ok (firstn cap b, None,
                              mkAR true (skipn cap b) None rest (ar_fin st))
                    end
              end
          end
      end
  end.

(** Read until an error (io.EOF included) with buffers of [cap] >= 1 bytes. *)
Fixpoint ar_drain (fuel cap : nat) (st : arstate) (acc : bytes) : res (bytes * outcome) :=
  match fuel with
  | O => Err EOther
  | S f =>
      let* (b, e, st') := ar_read (Nat.max 1 cap) st in
      match e with
      | Some o => Ok (acc ++ b, o)
      | None => ar_drain f cap st' (acc ++ b)
      end
  end.

(** De-armoring a text: the bytes released and how the stream ends.  Fuel:
    each call consumes a line or releases at least one byte. *)
Definition dearmor_from (text : bytes) (fin : status) (cap : nat) : res (bytes * outcome) :=
  ar_drain (4 + 2 * length text) cap (ar_init text fin) [].

Definition dearmor (text : bytes) : res (bytes * outcome) := dearmor_from text SEof line_bytes.

(** The documented tolerances, as a function: drop whitespace-only lines
    before the header line, one CR before each LF, and whitespace after the
    footer line; supply a missing final LF.  ([normalize] is only meaningful on
    accepted texts.) *)
Fixpoint drop_leading_ws (ls : list bytes) : list bytes :=
  match ls with
  | [] => []
  | l :: rest => if all_space (strip_cr l) then drop_leading_ws rest else ls
  end.

Fixpoint upto_footer (ls : list bytes) : list bytes :=
  match ls with
  | [] => []
  | l :: rest =>
      if bytes_eqb (strip_cr l) armor_footer then [strip_cr l]
      else strip_cr l :: upto_footer rest
  end.

Definition normalize (text : bytes) : bytes :=
  concat (map (fun l => l ++ [LF]) (upto_footer (drop_leading_ws (split_on LF text)))).
