(** BufIOFacts.v — facts about BufIO.v (bufio.Reader.ReadBytes('\n') over an
    IO.src): the lines obtained do not depend on the delivery schedule, and a
    sticky source fault surfaces after the complete lines that precede it.
    Lemmas only. *)

From Age Require Import Base IO BufIO Base64Facts StreamMachine.
From Coq Require Import ZifyN ZifyNat ZifyBool.

(** * [cut_line] *)

Lemma cut_line_some : forall l line rest,
  cut_line l = Some (line, rest) ->
  exists l0, line = l0 ++ [LF] /\ ~ In LF l0 /\ l = l0 ++ LF :: rest.
Proof.
  induction l as [|x l IH]; intros line rest H; cbn [cut_line] in H; [discriminate|].
  destruct (Byte.eqb x LF) eqn:Ex.
  - apply byte_eqb_eq in Ex. inversion H; subst; clear H.
    exists []. cbn [app]. split; [reflexivity|]. split; [intros []|reflexivity].
  - apply byte_eqb_neq in Ex.
    destruct (cut_line l) as [[ln rs]|] eqn:Ec; [|discriminate].
    inversion H; subst; clear H.
    destruct (IH ln rest eq_refl) as [l0 [Hl [Hni Heq]]].
    exists (x :: l0). cbn [app]. split; [now rewrite Hl|]. split.
    + intros [Hx|Hin]; [now apply Ex|now apply Hni].
    + now rewrite Heq.
Qed.

Lemma cut_line_none : forall l, cut_line l = None -> ~ In LF l.
Proof.
  induction l as [|x l IH]; intros H; [intros []|].
  cbn [cut_line] in H. destruct (Byte.eqb x LF) eqn:Ex; [discriminate|].
  apply byte_eqb_neq in Ex.
  destruct (cut_line l) as [[ln rs]|] eqn:Ec; [discriminate|].
  intros [Hx|Hin]; [now apply Ex|now apply (IH eq_refl)].
Qed.

Lemma cut_line_app_some : forall x y line rest,
  cut_line x = Some (line, rest) -> cut_line (x ++ y) = Some (line, rest ++ y).
Proof.
  induction x as [|a x IH]; intros y line rest H; cbn [cut_line] in H; [discriminate|].
  cbn [app cut_line]. destruct (Byte.eqb a LF) eqn:Ea.
  - inversion H; subst; reflexivity.
  - destruct (cut_line x) as [[ln rs]|] eqn:Ec; [|discriminate].
    inversion H; subst; clear H. now rewrite (IH y ln rest eq_refl).
Qed.

Lemma cut_line_app_none : forall x y,
  cut_line x = None ->
  cut_line (x ++ y) = match cut_line y with
                      | Some (l, r) => Some (x ++ l, r)
                      | None => None
                      end.
Proof.
  induction x as [|a x IH]; intros y H.
  - cbn [app]. destruct (cut_line y) as [[l r]|]; reflexivity.
  - cbn [cut_line] in H. cbn [app cut_line].
    destruct (Byte.eqb a LF) eqn:Ea; [discriminate|].
    destruct (cut_line x) as [[ln rs]|] eqn:Ec; [discriminate|].
    rewrite (IH y eq_refl). destruct (cut_line y) as [[l r]|]; reflexivity.
Qed.

(** * One [fill] *)

(** How a source ends: a fault-free source with io.EOF, a faulty one with its
    failure. *)
Definition fin (s : src) : status :=
  match s_fault s with Some _ => SFail | None => SEof end.

(** The reader's invariant: the source is well formed and, once the reader has
    seen the end, nothing is left to come and the recorded status is the
    source's own way of ending. *)
Definition binv (b : bufrd) : Prop :=
  wf_src (b_src b) /\
  (b_end b = None \/ (b_end b = Some (fin (b_src b)) /\ src_content (b_src b) = [])).

Lemma fin_eof_nofault : forall s, fin s = SEof -> s_fault s = None.
Proof. intros s H. unfold fin in H. destruct (s_fault s); [discriminate|reflexivity]. Qed.

Lemma fill_spec : forall b,
  binv b -> b_end b = None ->
  buf_content (fill b) = buf_content b /\
  binv (fill b) /\
  fin (b_src (fill b)) = fin (b_src b) /\
  (b_end (fill b) = None -> avail (b_src (fill b)) < avail (b_src b)).
Proof.
  intros b [Hwf _] He. unfold fill. rewrite He.
  assert (Hcap0 : 0 < fill_cap) by (unfold fill_cap; lia).
  destruct (src_read_spec fill_cap (b_src b) Hwf Hcap0)
    as [m [ps [st [Hr [Hcap [Hav Hcases]]]]]].
  rewrite Hr. clear Hr.
  destruct b as [buf s e]. destruct s as [data pcs eofd fault fc].
  unfold binv, buf_content, wf_src, avail, fin, src_content in *.
  cbn [b_buf b_src b_end s_data s_fault s_eofdata s_fclass s_pieces] in *.
  destruct fault as [k|]; cbn [fault_sub].
  - assert (Hst : st = SFail /\ k = 0 /\ m = 0 \/ st = SOk /\ 0 < m).
    { destruct Hcases as [[Hf [Hs Hm]]|[[Hf _]|[Hm [Hs|[_ [_ Hf]]]]]];
        try discriminate.
      - left. inversion Hf. now repeat split.
      - now right. }
    split; [|split; [split|split]].
    + rewrite <- app_assoc. f_equal. apply firstn_split_le. lia.
    + rewrite skipn_length. lia.
    + destruct Hst as [[Hs [Hk Hm]]|[Hs Hm]]; subst st.
      * right. split; [reflexivity|]. subst k m. reflexivity.
      * now left.
    + reflexivity.
    + intros Hn. destruct Hst as [[Hs _]|[_ Hm]]; [subst st; discriminate|]. lia.
  - assert (Hst : st = SEof /\ skipn m data = [] \/ st = SOk /\ 0 < m).
    { destruct Hcases as [[Hf _]|[[_ [Hd [Hs Hm]]]|[Hm [Hs|[Hs [Hl _]]]]]];
        try discriminate.
      - left. subst data m. now split.
      - now right.
      - left. split; [exact Hs|]. subst m. apply skipn_all. }
    split; [|split; [split|split]].
    + rewrite <- app_assoc. f_equal. apply firstn_skipn.
    + exact I.
    + destruct Hst as [[Hs Hk]|[Hs Hm]]; subst st.
      * right. now split.
      * now left.
    + reflexivity.
    + intros Hn. destruct Hst as [[Hs _]|[_ Hm]]; [subst st; discriminate|].
      rewrite skipn_length. lia.
Qed.

(** * One [ReadBytes] *)

Lemma read_bytes_lf_eq : forall fuel b,
  read_bytes_lf fuel b =
  match cut_line (b_buf b) with
  | Some (line, rest) => (inl line, mkBuf rest (b_src b) (b_end b))
  | None =>
      match b_end b with
      | Some st => (inr (b_buf b, st), mkBuf [] (b_src b) (b_end b))
      | None =>
          match fuel with
          | O => (inr (b_buf b, SFail), b)
          | S f => read_bytes_lf f (fill b)
          end
      end
  end.
Proof. intros [|f] b; reflexivity. Qed.

Lemma read_bytes_lf_spec : forall fuel b,
  binv b -> (b_end b = None -> avail (b_src b) < fuel) ->
  match cut_line (buf_content b) with
  | Some (line, rest) =>
      exists b', read_bytes_lf fuel b = (inl line, b') /\ buf_content b' = rest /\
                 binv b' /\ fin (b_src b') = fin (b_src b)
  | None =>
      exists b', read_bytes_lf fuel b = (inr (buf_content b, fin (b_src b)), b') /\
                 buf_content b' = []
  end.
Proof.
  induction fuel as [|f IH]; intros b Hinv Hfuel.
  - rewrite read_bytes_lf_eq. unfold buf_content at 1.
    destruct (cut_line (b_buf b)) as [[line rest]|] eqn:Ec.
    + rewrite (cut_line_app_some _ (src_content (b_src b)) _ _ Ec).
      eexists. split; [reflexivity|]. split; [reflexivity|]. split; [exact Hinv|reflexivity].
    + destruct (b_end b) as [st|] eqn:Ee.
      * destruct Hinv as [_ [Hn|[Hs Hc]]]; [congruence|]. rewrite Ee in Hs.
        injection Hs as ->. unfold buf_content. rewrite Hc, app_nil_r, Ec.
        eexists. split; [reflexivity|]. cbn [b_buf b_src]. now rewrite Hc.
      * specialize (Hfuel eq_refl). lia.
  - rewrite read_bytes_lf_eq. unfold buf_content at 1.
    destruct (cut_line (b_buf b)) as [[line rest]|] eqn:Ec.
    + rewrite (cut_line_app_some _ (src_content (b_src b)) _ _ Ec).
      eexists. split; [reflexivity|]. split; [reflexivity|]. split; [exact Hinv|reflexivity].
    + destruct (b_end b) as [st|] eqn:Ee.
      * destruct Hinv as [_ [Hn|[Hs Hc]]]; [congruence|]. rewrite Ee in Hs.
        injection Hs as ->. unfold buf_content. rewrite Hc, app_nil_r, Ec.
        eexists. split; [reflexivity|]. cbn [b_buf b_src]. now rewrite Hc.
      * destruct (fill_spec b Hinv Ee) as [Hcont [Hinv' [Hfin Hav]]].
        specialize (Hfuel eq_refl).
        assert (Hfuel' : b_end (fill b) = None -> avail (b_src (fill b)) < f).
        { intros Hn. specialize (Hav Hn). lia. }
        specialize (IH (fill b) Hinv' Hfuel').
        rewrite Hcont, Hfin in IH.
        fold (buf_content b). exact IH.
Qed.

Lemma line_fuel_ok : forall b, binv b -> avail (b_src b) < line_fuel b.
Proof.
  intros b [Hwf _]. unfold line_fuel, avail. unfold wf_src in Hwf.
  destruct (s_fault (b_src b)); lia.
Qed.

Lemma read_line_spec : forall b,
  binv b ->
  match cut_line (buf_content b) with
  | Some (line, rest) =>
      exists b', read_line b = (inl line, b') /\ buf_content b' = rest /\
                 binv b' /\ fin (b_src b') = fin (b_src b)
  | None =>
      exists b', read_line b = (inr (buf_content b, fin (b_src b)), b') /\
                 buf_content b' = []
  end.
Proof.
  intros b Hinv. unfold read_line. apply read_bytes_lf_spec; [exact Hinv|].
  intros _. now apply line_fuel_ok.
Qed.

Lemma read_line_sched_indep :
  forall (buf data : bytes) (pieces : list nat) (eofdata : bool),
    let b := mkBuf buf (mkSrc data pieces eofdata None EIo) None in
    match cut_line (buf ++ data) with
    | Some (line, rest) =>
        exists b', read_line b = (inl line, b') /\ buf_content b' = rest /\
                   (b_end b' = None \/ b_end b' = Some SEof) /\ s_fault (b_src b') = None
    | None =>
        exists b', read_line b = (inr (buf ++ data, SEof), b') /\ buf_content b' = []
    end.
Proof.
  intros buf data pieces eofdata b.
  assert (Hinv : binv b).
  { subst b. split; [exact I|]. now left. }
  pose proof (read_line_spec b Hinv) as H.
  change (buf_content b) with (buf ++ data) in H.
  change (fin (b_src b)) with SEof in H.
  destruct (cut_line (buf ++ data)) as [[line rest]|].
  - destruct H as [b' [Hr [Hc [[Hwf He] Hf]]]].
    exists b'. split; [exact Hr|]. split; [exact Hc|].
    rewrite Hf in He. split.
    + destruct He as [He|[He _]]; [now left|now right].
    + now apply fin_eof_nofault.
  - exact H.
Qed.

(** * All lines *)

Lemma removelast_cons_ne : forall (A : Type) (x : A) (l : list A),
  l <> [] -> removelast (x :: l) = x :: removelast l.
Proof. intros A x [|y l] H; [contradiction|reflexivity]. Qed.

Lemma last_cons_ne : forall (A : Type) (x d : A) (l : list A),
  l <> [] -> last (x :: l) d = last l d.
Proof. intros A x d [|y l] H; [contradiction|reflexivity]. Qed.

Lemma read_all_lines_spec : forall fuel b acc,
  binv b -> length (buf_content b) < fuel ->
  read_all_lines fuel b acc
  = (acc ++ map (fun l => l ++ [LF]) (removelast (split_on LF (buf_content b))),
     last (split_on LF (buf_content b)) [], fin (b_src b)).
Proof.
  induction fuel as [|f IH]; intros b acc Hinv Hlen; [lia|].
  cbn [read_all_lines]. pose proof (read_line_spec b Hinv) as H.
  destruct (cut_line (buf_content b)) as [[line rest]|] eqn:Ec.
  - destruct H as [b' [Hr [Hc [Hinv' Hf]]]]. rewrite Hr.
    destruct (cut_line_some _ _ _ Ec) as [l0 [Hl [Hni Heq]]].
    rewrite Heq in Hlen |- *. rewrite app_length in Hlen. cbn [length] in Hlen.
    rewrite split_on_app_sep by exact Hni.
    rewrite removelast_cons_ne, last_cons_ne by apply split_on_nonempty.
    rewrite IH; [|exact Hinv'|rewrite Hc; lia].
    rewrite Hc, Hf, Hl. cbn [map]. rewrite <- app_assoc. reflexivity.
  - destruct H as [b' [Hr _]]. rewrite Hr.
    rewrite split_on_no_sep by (now apply cut_line_none).
    cbn [removelast last map]. now rewrite app_nil_r.
Qed.

Lemma all_lines_sched_indep :
  forall (data : bytes) (pieces : list nat) (eofdata : bool) (fuel : nat),
    length data < fuel ->
    read_all_lines fuel (buf_init (mkSrc data pieces eofdata None EIo)) []
    = (map (fun l => l ++ [LF]) (removelast (split_on LF data)), last (split_on LF data) [], SEof).
Proof.
  intros data pieces eofdata fuel Hlen.
  rewrite read_all_lines_spec.
  - reflexivity.
  - split; [exact I|]. now left.
  - exact Hlen.
Qed.

Lemma all_lines_faulty :
  forall (data : bytes) (pieces : list nat) (eofdata : bool) (k fuel : nat) (fc : errclass),
    k <= length data -> length data < fuel ->
    read_all_lines fuel (buf_init (mkSrc data pieces eofdata (Some k) fc)) []
    = (map (fun l => l ++ [LF]) (removelast (split_on LF (firstn k data))),
       last (split_on LF (firstn k data)) [], SFail).
Proof.
  intros data pieces eofdata k fuel fc Hk Hlen.
  rewrite read_all_lines_spec.
  - reflexivity.
  - split; [exact Hk|]. now left.
  - unfold buf_content, buf_init, src_content. cbn [b_buf b_src s_fault s_data app].
    rewrite firstn_length. lia.
Qed.
