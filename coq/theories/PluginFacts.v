(** PluginFacts.v — proofs about the plugin client model (Plugin.v).
    Lemmas only; the property statements are in Properties/C16.v. *)

From Age Require Import Base Base64 Format Plugin Base64Facts FormatFacts.
From Coq Require Import ZifyN ZifyNat ZifyBool.
Local Open Scope N_scope.

(** * Tactics for the literal type constants *)

(** Goals [c1 <> c2] between two literal byte strings. *)
Ltac neq_const := apply bytes_eqb_neq; vm_compute; reflexivity.

(** Evaluate every [bytes_eqb c1 c2] between closed constants in the goal. *)
Ltac tyred :=
  repeat match goal with
  | |- context [bytes_eqb ?a ?b] =>
      let v := eval vm_compute in (bytes_eqb a b) in
      match v with
      | true => change (bytes_eqb a b) with true
      | false => change (bytes_eqb a b) with false
      end
  end; cbv beta iota zeta.

Ltac break_hyp H :=
  repeat match type of H with
  | context [if ?c then _ else _] => destruct c
  | context [match ?x with _ => _ end] => destruct x
  end.

(** * Framing *)

Lemma marshal_stanza_length : forall s, (1 <= length (marshal_stanza s))%nat.
Proof.
  intros s. unfold marshal_stanza. rewrite stanza_prefix_eq.
  cbn [app length]. lia.
Qed.

Lemma transcript_cons : forall m msgs,
  transcript (m :: msgs) = marshal_stanza m ++ transcript msgs.
Proof. reflexivity. Qed.

Lemma transcript_nil : transcript [] = [].
Proof. reflexivity. Qed.

Lemma read_stanza_bytes_nil : read_stanza_bytes [] = Err EHeader.
Proof. reflexivity. Qed.

Lemma framing_recipient :
  forall (u : ui) (msgs : list stanza) (st : rstate) (fuel : nat),
    Forall (fun m => wf_stanza m = true) msgs ->
    (length (transcript msgs) < fuel)%nat ->
    recipient_loop fuel u (transcript msgs) st = recipient_msgs u msgs st.
Proof.
  intros u msgs. induction msgs as [|m msgs IH]; intros st fuel Hwf Hlen.
  - rewrite transcript_nil in *. destruct fuel as [|f]; [cbn [length] in Hlen; lia|].
    cbn [recipient_loop recipient_msgs]. rewrite read_stanza_bytes_nil. reflexivity.
  - rewrite transcript_cons in *. inversion Hwf as [|m' msgs' Hm Hrest]; subst.
    rewrite app_length in Hlen. pose proof (marshal_stanza_length m) as Hl.
    destruct fuel as [|f]; [lia|].
    cbn [recipient_loop recipient_msgs]. rewrite marshal_read_stanza by exact Hm.
    destruct (recipient_step u st m) as [st'|sent r]; [|reflexivity].
    apply IH; [exact Hrest|lia].
Qed.

Lemma framing_identity :
  forall (u : ui) (msgs : list stanza) (st : istate) (fuel : nat),
    Forall (fun m => wf_stanza m = true) msgs ->
    (length (transcript msgs) < fuel)%nat ->
    identity_loop fuel u (transcript msgs) st = identity_msgs u msgs st.
Proof.
  intros u msgs. induction msgs as [|m msgs IH]; intros st fuel Hwf Hlen.
  - rewrite transcript_nil in *. destruct fuel as [|f]; [cbn [length] in Hlen; lia|].
    cbn [identity_loop identity_msgs]. rewrite read_stanza_bytes_nil. reflexivity.
  - rewrite transcript_cons in *. inversion Hwf as [|m' msgs' Hm Hrest]; subst.
    rewrite app_length in Hlen. pose proof (marshal_stanza_length m) as Hl.
    destruct fuel as [|f]; [lia|].
    cbn [identity_loop identity_msgs]. rewrite marshal_read_stanza by exact Hm.
    destruct (identity_step u st m) as [st'|sent r]; [|reflexivity].
    apply IH; [exact Hrest|lia].
Qed.

Lemma recipient_bad_frame :
  forall (u : ui) (out : bytes) (st : rstate) (fuel : nat) e,
    read_stanza_bytes out = Err e ->
    recipient_loop (S fuel) u out st = (rs_sent st, CRFatal).
Proof.
  intros u out st fuel e H. cbn [recipient_loop]. rewrite H. reflexivity.
Qed.

(** * The UI handler *)

Lemma ui_handle_single : forall u s r,
  ui_handle u s = Some (r, false) -> exists x, r = [x].
Proof.
  intros u s r H. unfold ui_handle in H.
  break_hyp H; try discriminate H; injection H as <-; eexists; reflexivity.
Qed.

(** * One step of the recipient machine *)

Lemma recipient_step_continue : forall u st m st',
  recipient_step u st m = Continue st' ->
  not_terminal m /\ (exists r, rs_sent st' = rs_sent st ++ [r]) /\
  ((is_type s_recipient_stanza m = true /\ is_type s_labels m = false /\
    exists p, rs_payload m = Some p /\ rs_stanzas st' = rs_stanzas st ++ [p] /\
              rs_labels st' = rs_labels st) \/
   (is_type s_recipient_stanza m = false /\ is_type s_labels m = true /\
    rs_stanzas st' = rs_stanzas st /\ rs_labels st = None /\ rs_labels st' = Some (st_args m)) \/
   (is_type s_recipient_stanza m = false /\ is_type s_labels m = false /\
    rs_stanzas st' = rs_stanzas st /\ rs_labels st' = rs_labels st)).
Proof.
  intros u st m st' H. unfold recipient_step in H. unfold is_type, not_terminal.
  cbv beta zeta in H.
  destruct (bytes_eqb (st_type m) s_recipient_stanza) eqn:E1; cbv beta iota in H.
  { pose proof (proj1 (bytes_eqb_eq _ _) E1) as T1.
    destruct (st_args m) as [|idx [|ty args]] eqn:Ea; try discriminate H.
    destruct (atoi_zero idx) as [[|]|] eqn:Ez; try discriminate H.
    injection H as <-. cbn [rs_sent rs_stanzas rs_labels].
    split; [|split].
    - rewrite T1. split; neq_const.
    - eexists; reflexivity.
    - left. split; [reflexivity|]. split; [rewrite T1; vm_compute; reflexivity|].
      eexists. split; [unfold rs_payload; rewrite Ea, Ez; reflexivity|].
      split; reflexivity. }
  destruct (bytes_eqb (st_type m) s_labels) eqn:E2; cbv beta iota in H.
  { pose proof (proj1 (bytes_eqb_eq _ _) E2) as T2.
    destruct (rs_labels st) as [l|] eqn:El; try discriminate H.
    injection H as <-. cbn [rs_sent rs_stanzas rs_labels].
    split; [|split].
    - rewrite T2. split; neq_const.
    - eexists; reflexivity.
    - right; left. repeat split; reflexivity. }
  destruct (bytes_eqb (st_type m) s_error) eqn:E3; cbv beta iota in H; [discriminate H|].
  destruct (bytes_eqb (st_type m) s_done) eqn:E4; cbv beta iota in H; [discriminate H|].
  apply bytes_eqb_neq in E3, E4.
  split; [split; assumption|].
  destruct (ui_handle u m) as [[r [|]]|] eqn:Eu; try discriminate H; injection H as <-;
    cbn [rs_sent rs_stanzas rs_labels].
  - apply ui_handle_single in Eu. destruct Eu as (x & ->).
    split; [eexists; reflexivity|]. right; right. repeat split; reflexivity.
  - split; [eexists; reflexivity|]. right; right. repeat split; reflexivity.
Qed.

Lemma recipient_step_stop : forall u st m sent r,
  recipient_step u st m = Stop sent r ->
  r = CRFatal \/ (exists t, r = CRPluginError t) \/
  (st_type m = s_done /\
   r = match rs_stanzas st with
       | [] => CRFatal
       | ss => CROk (ss, match rs_labels st with Some l => l | None => [] end)
       end).
Proof.
  intros u st m sent r H. unfold recipient_step in H. cbv beta zeta in H.
  destruct (bytes_eqb (st_type m) s_recipient_stanza) eqn:E1; cbv beta iota in H.
  { left. break_hyp H; try discriminate H; injection H as _ <-; reflexivity. }
  destruct (bytes_eqb (st_type m) s_labels) eqn:E2; cbv beta iota in H.
  { left. break_hyp H; try discriminate H; injection H as _ <-; reflexivity. }
  destruct (bytes_eqb (st_type m) s_error) eqn:E3; cbv beta iota in H.
  { right; left. injection H as _ <-. eexists; reflexivity. }
  destruct (bytes_eqb (st_type m) s_done) eqn:E4; cbv beta iota in H.
  { right; right. apply bytes_eqb_eq in E4. injection H as _ <-. split; [exact E4|reflexivity]. }
  left. destruct (ui_handle u m) as [[x [|]]|]; try discriminate H; injection H as _ <-; reflexivity.
Qed.

(** * One step of the identity machine *)

Lemma identity_step_continue : forall u st m st',
  identity_step u st m = Continue st' ->
  not_terminal m /\ (exists r, is_sent st' = is_sent st ++ [r]) /\
  ((is_type s_file_key m = true /\ is_key st = None /\ is_key st' = Some (st_body m) /\
    exists idx, st_args m = [idx] /\ atoi_zero idx = Some true) \/
   (is_type s_file_key m = false /\ is_key st' = is_key st)).
Proof.
  intros u st m st' H. unfold identity_step in H. unfold is_type, not_terminal.
  destruct (bytes_eqb (st_type m) s_file_key) eqn:E1; cbv beta iota in H.
  { pose proof (proj1 (bytes_eqb_eq _ _) E1) as T1.
    destruct (st_args m) as [|idx [|x args]] eqn:Ea; try discriminate H.
    destruct (atoi_zero idx) as [[|]|] eqn:Ez; try discriminate H.
    destruct (is_key st) as [k|] eqn:Ek; try discriminate H.
    injection H as <-. cbn [is_sent is_key].
    split; [|split].
    - rewrite T1. split; neq_const.
    - eexists; reflexivity.
    - left. repeat split. exists idx. split; [reflexivity|exact Ez]. }
  destruct (bytes_eqb (st_type m) s_error) eqn:E3; cbv beta iota in H; [discriminate H|].
  destruct (bytes_eqb (st_type m) s_done) eqn:E4; cbv beta iota in H; [discriminate H|].
  apply bytes_eqb_neq in E3, E4.
  split; [split; assumption|].
  destruct (ui_handle u m) as [[r [|]]|] eqn:Eu; try discriminate H; injection H as <-;
    cbn [is_sent is_key].
  - apply ui_handle_single in Eu. destruct Eu as (x & ->).
    split; [eexists; reflexivity|]. right. split; reflexivity.
  - split; [eexists; reflexivity|]. right. split; reflexivity.
Qed.

Lemma identity_step_stop : forall u st m sent r,
  identity_step u st m = Stop sent r ->
  r = CRFatal \/ (exists t, r = CRPluginError t) \/
  (st_type m = s_done /\
   r = match is_key st with
       | Some (c :: k) => CROk (c :: k)
       | _ => CRIncorrect
       end).
Proof.
  intros u st m sent r H. unfold identity_step in H.
  destruct (bytes_eqb (st_type m) s_file_key) eqn:E1; cbv beta iota in H.
  { left. break_hyp H; try discriminate H; injection H as _ <-; reflexivity. }
  destruct (bytes_eqb (st_type m) s_error) eqn:E3; cbv beta iota in H.
  { right; left. injection H as _ <-. eexists; reflexivity. }
  destruct (bytes_eqb (st_type m) s_done) eqn:E4; cbv beta iota in H.
  { right; right. apply bytes_eqb_eq in E4. injection H as _ <-. split; [exact E4|reflexivity]. }
  left. destruct (ui_handle u m) as [[x [|]]|]; try discriminate H; injection H as _ <-; reflexivity.
Qed.

(** * End of output without "done" *)

Lemma recipient_no_done : forall u msgs st,
  Forall (fun m => st_type m <> s_done) msgs ->
  snd (recipient_msgs u msgs st) = CRFatal \/
  exists t, snd (recipient_msgs u msgs st) = CRPluginError t.
Proof.
  intros u msgs. induction msgs as [|m msgs IH]; intros st Hnd.
  - left. reflexivity.
  - inversion Hnd as [|m' msgs' Hm Hrest]; subst. cbn [recipient_msgs].
    destruct (recipient_step u st m) as [st'|sent r] eqn:Es.
    + apply IH. exact Hrest.
    + cbn [snd]. apply recipient_step_stop in Es.
      destruct Es as [Hr | [Hr | (Hd & _)]]; [left; exact Hr | right; exact Hr | contradiction].
Qed.

Lemma identity_no_done : forall u msgs st,
  Forall (fun m => st_type m <> s_done) msgs ->
  snd (identity_msgs u msgs st) = CRFatal \/
  exists t, snd (identity_msgs u msgs st) = CRPluginError t.
Proof.
  intros u msgs. induction msgs as [|m msgs IH]; intros st Hnd.
  - left. reflexivity.
  - inversion Hnd as [|m' msgs' Hm Hrest]; subst. cbn [identity_msgs].
    destruct (identity_step u st m) as [st'|sent r] eqn:Es.
    + apply IH. exact Hrest.
    + cbn [snd]. apply identity_step_stop in Es.
      destruct Es as [Hr | [Hr | (Hd & _)]]; [left; exact Hr | right; exact Hr | contradiction].
Qed.

Lemma no_done_is_error :
  forall (u : ui) (msgs : list stanza) (st : rstate) (ist : istate),
    Forall (fun m => st_type m <> s_done) msgs ->
    (snd (recipient_msgs u msgs st) = CRFatal \/ exists t, snd (recipient_msgs u msgs st) = CRPluginError t) /\
    (snd (identity_msgs u msgs ist) = CRFatal \/ exists t, snd (identity_msgs u msgs ist) = CRPluginError t).
Proof.
  intros u msgs st ist H. split; [apply recipient_no_done | apply identity_no_done]; exact H.
Qed.

(** * Phase 1 reads back *)

Lemma read_all_transcript : forall msgs fuel,
  Forall (fun m => wf_stanza m = true) msgs ->
  (length (transcript msgs) < fuel)%nat ->
  read_all fuel (transcript msgs) = Some msgs.
Proof.
  induction msgs as [|m msgs IH]; intros fuel Hwf Hlen.
  - rewrite transcript_nil. destruct fuel; reflexivity.
  - rewrite transcript_cons in *. inversion Hwf as [|m' msgs' Hm Hrest]; subst.
    rewrite app_length in Hlen. pose proof (marshal_stanza_length m) as Hl.
    destruct fuel as [|f]; [lia|].
    destruct (marshal_stanza m ++ transcript msgs) as [|c l] eqn:E.
    { apply (f_equal (@length byte)) in E. rewrite app_length in E. cbn [length] in E. lia. }
    cbn [read_all]. rewrite <- E. rewrite marshal_read_stanza by exact Hm.
    rewrite IH by (exact Hrest || lia). reflexivity.
Qed.

Lemma valid_string_app : forall a b,
  valid_string a = true -> Forall (fun c => vchar c = true) b -> valid_string (a ++ b) = true.
Proof.
  intros a b Ha Hb. destruct a as [|c a]; [discriminate Ha|].
  unfold valid_string in *. change ((c :: a) ++ b) with (c :: (a ++ b)).
  change (forallb vchar ((c :: a) ++ b) = true). rewrite forallb_app, Ha.
  cbn [andb]. apply forallb_forall. apply Forall_forall. exact Hb.
Qed.

Lemma valid_grease : forall grease,
  Forall (fun c => vchar c = true) grease -> valid_string (s_grease ++ grease) = true.
Proof. intros grease H. apply valid_string_app; [reflexivity|exact H]. Qed.

Lemma phase1_recipient_reads_back :
  forall (as_identity : bool) (encoding grease file_key : bytes),
    valid_string encoding = true -> Forall (fun c => vchar c = true) grease ->
    read_all (S (length (transcript (recipient_phase1 as_identity encoding grease file_key))))
             (transcript (recipient_phase1 as_identity encoding grease file_key))
    = Some [mkStanza (if as_identity then s_add_identity else s_add_recipient) [encoding] [];
            mkStanza (s_grease ++ grease) [] [];
            mkStanza s_wrap_file_key [] file_key;
            mkStanza s_extension_labels [] [];
            mkStanza s_done [] []].
Proof.
  intros as_identity encoding grease file_key Henc Hg.
  apply (read_all_transcript (recipient_phase1 as_identity encoding grease file_key));
    [|apply Nat.lt_succ_diag_r].
  unfold recipient_phase1, cmd, cmd_body.
  repeat apply Forall_cons; try apply Forall_nil;
    unfold wf_stanza; cbn [st_type st_args forallb].
  - rewrite Henc. destruct as_identity; reflexivity.
  - rewrite valid_grease by exact Hg. reflexivity.
  - reflexivity.
  - reflexivity.
  - reflexivity.
Qed.

Lemma phase1_identity_reads_back :
  forall (encoding grease : bytes) (stanzas : list stanza),
    valid_string encoding = true -> Forall (fun c => vchar c = true) grease ->
    Forall (fun s => wf_stanza s = true) stanzas ->
    read_all (S (length (transcript (identity_phase1 encoding grease stanzas))))
             (transcript (identity_phase1 encoding grease stanzas))
    = Some (identity_phase1 encoding grease stanzas) /\
    (forall rs, In rs stanzas ->
       In (mkStanza s_recipient_stanza (s_zero :: st_type rs :: st_args rs) (st_body rs))
          (identity_phase1 encoding grease stanzas)).
Proof.
  intros encoding grease stanzas Henc Hg Hst. split.
  - apply read_all_transcript; [|apply Nat.lt_succ_diag_r].
    unfold identity_phase1, cmd. apply Forall_forall. intros x Hx.
    apply in_app_or in Hx. destruct Hx as [Hx|Hx].
    { destruct Hx as [<-|[<-|[]]]; unfold wf_stanza; cbn [st_type st_args forallb].
      - rewrite Henc. reflexivity.
      - rewrite valid_grease by exact Hg. reflexivity. }
    apply in_app_or in Hx. destruct Hx as [Hx|Hx].
    { apply in_map_iff in Hx. destruct Hx as (rs & <- & Hrs).
      rewrite Forall_forall in Hst. specialize (Hst rs Hrs).
      unfold wf_stanza in *. cbn [st_type st_args forallb]. rewrite Hst. reflexivity. }
    destruct Hx as [<-|[]]. reflexivity.
  - intros rs Hrs. unfold identity_phase1. apply in_or_app. right. apply in_or_app. left.
    apply in_map_iff. exists rs. split; [reflexivity|exact Hrs].
Qed.

(** * Replies *)

Lemma one_reply_per_message :
  forall (u : ui) (m : stanza),
    (forall st st', recipient_step u st m = Continue st' -> exists r, rs_sent st' = rs_sent st ++ [r]) /\
    (forall st st', identity_step u st m = Continue st' -> exists r, is_sent st' = is_sent st ++ [r]).
Proof.
  intros u m. split; intros st st' H.
  - apply recipient_step_continue in H. destruct H as (_ & Hr & _). exact Hr.
  - apply identity_step_continue in H. destruct H as (_ & Hr & _). exact Hr.
Qed.

Lemma error_acked :
  forall (u : ui) (m : stanza),
    st_type m = s_error ->
    (forall st, recipient_step u st m = Stop (rs_sent st ++ [cmd s_ok []]) (CRPluginError (st_body m))) /\
    (forall st, identity_step u st m = Stop (is_sent st ++ [cmd s_ok []]) (CRPluginError (st_body m))).
Proof.
  intros u m Hty. split; intros st.
  - unfold recipient_step. rewrite Hty. tyred. reflexivity.
  - unfold identity_step. rewrite Hty. tyred. reflexivity.
Qed.

Lemma unknown_ignored :
  forall (u : ui) (m : stanza),
    (known_recipient_type (st_type m) = false ->
     forall st, recipient_step u st m
                = Continue (mkRS (rs_stanzas st) (rs_labels st) (rs_sent st ++ [cmd s_unsupported []]))) /\
    (known_identity_type (st_type m) = false ->
     forall st, identity_step u st m
                = Continue (mkIS (is_key st) (is_sent st ++ [cmd s_unsupported []]))).
Proof.
  intros u m. split; intros Hk st.
  - unfold known_recipient_type in Hk. cbn [existsb] in Hk.
    repeat (apply orb_false_iff in Hk; destruct Hk as (? & Hk)).
    unfold recipient_step, ui_handle.
    repeat match goal with H : bytes_eqb _ _ = false |- _ => rewrite H; clear H end.
    reflexivity.
  - unfold known_identity_type in Hk. cbn [existsb] in Hk.
    repeat (apply orb_false_iff in Hk; destruct Hk as (? & Hk)).
    unfold identity_step, ui_handle.
    repeat match goal with H : bytes_eqb _ _ = false |- _ => rewrite H; clear H end.
    reflexivity.
Qed.

(** * The result of Wrap *)

Lemma wrap_general : forall u msgs st sent ss labels,
  recipient_msgs u msgs st = (sent, CROk (ss, labels)) ->
  exists pre d post,
    msgs = pre ++ d :: post /\ st_type d = s_done /\ Forall not_terminal pre /\
    map (@Some stanza) ss
      = map (@Some stanza) (rs_stanzas st) ++ map rs_payload (filter (is_type s_recipient_stanza) pre) /\
    ss <> [] /\
    match rs_labels st with
    | Some l => filter (is_type s_labels) pre = [] /\ labels = l
    | None => (length (filter (is_type s_labels) pre) <= 1)%nat /\
              labels = match filter (is_type s_labels) pre with m :: _ => st_args m | [] => [] end
    end.
Proof.
  intros u msgs. induction msgs as [|m msgs IH]; intros st sent ss labels H.
  - cbn [recipient_msgs] in H. discriminate H.
  - cbn [recipient_msgs] in H. destruct (recipient_step u st m) as [st'|sent' r] eqn:Es.
    + apply IH in H. destruct H as (pre & d & post & -> & Hd & Hnt & Hss & Hne & Hl).
      apply recipient_step_continue in Es.
      destruct Es as (Hm & _ & [ (F1 & F2 & p & Hp & S1 & L1)
                               | [ (F1 & F2 & S1 & L0 & L1) | (F1 & F2 & S1 & L1) ] ]);
        exists (m :: pre), d, post;
        (split; [reflexivity|]); (split; [exact Hd|]);
        (split; [constructor; assumption|]);
        cbn [filter]; rewrite F1, F2.
      * rewrite S1, map_app, <- app_assoc in Hss. cbn [map app] in *. rewrite Hp.
        split; [exact Hss|]. split; [exact Hne|]. rewrite <- L1. exact Hl.
      * rewrite S1 in Hss. split; [exact Hss|]. split; [exact Hne|].
        rewrite L1 in Hl. destruct Hl as (Hf & ->). rewrite L0, Hf.
        cbn [length]. split; [lia|reflexivity].
      * rewrite S1 in Hss. split; [exact Hss|]. split; [exact Hne|]. rewrite <- L1. exact Hl.
    + injection H as -> ->. apply recipient_step_stop in Es.
      destruct Es as [Hr | [(t & Hr) | (Hd & Hr)]]; try discriminate Hr.
      exists [], m, msgs. destruct (rs_stanzas st) as [|s0 ss0] eqn:Est; [discriminate Hr|].
      injection Hr as -> ->.
      split; [reflexivity|]. split; [exact Hd|]. split; [constructor|].
      cbn [filter map]. rewrite app_nil_r. split; [reflexivity|]. split; [discriminate|].
      destruct (rs_labels st) as [l|]; cbn [length]; split; (reflexivity || lia).
Qed.

Lemma result_wrap :
  forall (u : ui) (msgs sent ss : list stanza) (labels : list bytes),
    recipient_msgs u msgs (mkRS [] None []) = (sent, CROk (ss, labels)) ->
    exists pre d post,
      msgs = pre ++ d :: post /\ st_type d = s_done /\ Forall not_terminal pre /\
      map (@Some stanza) ss = map rs_payload (filter (is_type s_recipient_stanza) pre) /\ ss <> [] /\
      (length (filter (is_type s_labels) pre) <= 1)%nat /\
      labels = match filter (is_type s_labels) pre with m :: _ => st_args m | [] => [] end.
Proof.
  intros u msgs sent ss labels H. apply wrap_general in H.
  destruct H as (pre & d & post & Hm & Hd & Hnt & Hss & Hne & Hl).
  exists pre, d, post. cbn [rs_stanzas rs_labels map app] in *.
  repeat (split; [assumption|]). exact Hl.
Qed.

Lemma wrap_refusals :
  forall (u : ui) (st : rstate) (m : stanza),
    (st_type m = s_recipient_stanza -> rs_payload m = None ->
       recipient_step u st m = Stop (rs_sent st) CRFatal) /\
    (st_type m = s_labels -> rs_labels st <> None ->
       recipient_step u st m = Stop (rs_sent st) CRFatal) /\
    (st_type m = s_done -> rs_stanzas st = [] ->
       recipient_step u st m = Stop (rs_sent st) CRFatal).
Proof.
  intros u st m. split; [|split].
  - intros Hty Hp. unfold recipient_step. rewrite Hty. tyred.
    unfold rs_payload in Hp.
    destruct (st_args m) as [|idx [|ty args]]; try reflexivity.
    destruct (atoi_zero idx) as [[|]|]; try reflexivity. discriminate Hp.
  - intros Hty Hl. unfold recipient_step. rewrite Hty. tyred.
    destruct (rs_labels st) as [l|]; [reflexivity|]. contradiction Hl; reflexivity.
  - intros Hty Hs. unfold recipient_step. rewrite Hty. tyred. rewrite Hs. reflexivity.
Qed.

(** * The result of Unwrap *)

Lemma unwrap_general : forall u msgs st sent r,
  identity_msgs u msgs st = (sent, r) ->
  (exists k, r = CROk k) \/ r = CRIncorrect ->
  exists pre d post fk,
    msgs = pre ++ d :: post /\ st_type d = s_done /\ Forall not_terminal pre /\
    r = match fk with Some (c :: k) => CROk (c :: k) | _ => CRIncorrect end /\
    match is_key st with
    | Some key => filter (is_type s_file_key) pre = [] /\ fk = Some key
    | None => (filter (is_type s_file_key) pre = [] /\ fk = None) \/
              exists fkm idx, filter (is_type s_file_key) pre = [fkm] /\ st_args fkm = [idx] /\
                              atoi_zero idx = Some true /\ fk = Some (st_body fkm)
    end.
Proof.
  intros u msgs. induction msgs as [|m msgs IH]; intros st sent r H Hr.
  - cbn [identity_msgs] in H. injection H as _ <-.
    destruct Hr as [(k & Hr)|Hr]; discriminate Hr.
  - cbn [identity_msgs] in H. destruct (identity_step u st m) as [st'|sent' r'] eqn:Es.
    + apply IH in H; [|exact Hr].
      destruct H as (pre & d & post & fk & -> & Hd & Hnt & Hres & Hk).
      apply identity_step_continue in Es.
      destruct Es as (Hm & _ & [ (F1 & K0 & K1 & idx & Ha & Hz) | (F1 & K1) ]);
        exists (m :: pre), d, post, fk;
        (split; [reflexivity|]); (split; [exact Hd|]);
        (split; [constructor; assumption|]); (split; [exact Hres|]);
        cbn [filter]; rewrite F1.
      * rewrite K1 in Hk. destruct Hk as (Hf & ->). rewrite K0, Hf.
        right. exists m, idx. repeat split; assumption.
      * rewrite <- K1. exact Hk.
    + injection H as -> ->. apply identity_step_stop in Es.
      destruct Es as [He | [(t & He) | (Hd & He)]].
      { subst r. destruct Hr as [(k & Hr)|Hr]; discriminate Hr. }
      { subst r. destruct Hr as [(k & Hr)|Hr]; discriminate Hr. }
      exists [], m, msgs, (is_key st).
      split; [reflexivity|]. split; [exact Hd|]. split; [constructor|]. split; [exact He|].
      cbn [filter]. destruct (is_key st) as [key|]; [split; reflexivity|left; split; reflexivity].
Qed.

Lemma result_unwrap :
  forall (u : ui) (msgs sent : list stanza) (k : bytes),
    identity_msgs u msgs (mkIS None []) = (sent, CROk k) ->
    exists pre d post fkm idx,
      msgs = pre ++ d :: post /\ st_type d = s_done /\ Forall not_terminal pre /\
      filter (is_type s_file_key) pre = [fkm] /\ st_args fkm = [idx] /\ atoi_zero idx = Some true /\
      st_body fkm = k /\ k <> [].
Proof.
  intros u msgs sent k H. apply unwrap_general in H; [|left; exists k; reflexivity].
  destruct H as (pre & d & post & fk & Hm & Hd & Hnt & Hres & Hk).
  cbn [is_key] in Hk.
  destruct Hk as [(_ & ->)|(fkm & idx & Hf & Ha & Hz & ->)]; [discriminate Hres|].
  exists pre, d, post, fkm, idx.
  destruct (st_body fkm) as [|c b] eqn:Eb; [discriminate Hres|]. injection Hres as ->.
  repeat (split; [assumption|]). split; [reflexivity|discriminate].
Qed.

Lemma result_incorrect :
  forall (u : ui) (msgs sent : list stanza),
    identity_msgs u msgs (mkIS None []) = (sent, CRIncorrect) ->
    exists pre d post,
      msgs = pre ++ d :: post /\ st_type d = s_done /\ Forall not_terminal pre /\
      (filter (is_type s_file_key) pre = [] \/
       exists fkm, filter (is_type s_file_key) pre = [fkm] /\ st_body fkm = []).
Proof.
  intros u msgs sent H. apply unwrap_general in H; [|right; reflexivity].
  destruct H as (pre & d & post & fk & Hm & Hd & Hnt & Hres & Hk).
  cbn [is_key] in Hk. exists pre, d, post.
  repeat (split; [assumption|]).
  destruct Hk as [(Hf & _)|(fkm & idx & Hf & Ha & Hz & ->)]; [left; exact Hf|].
  right. exists fkm. split; [exact Hf|].
  destruct (st_body fkm) as [|c b]; [reflexivity|discriminate Hres].
Qed.

Lemma unwrap_refusals :
  forall (u : ui) (st : istate) (m : stanza),
    st_type m = s_file_key ->
    (is_key st <> None -> exists sent, identity_step u st m = Stop sent CRFatal) /\
    ((forall idx, st_args m = [idx] -> atoi_zero idx <> Some true) ->
       identity_step u st m = Stop (is_sent st) CRFatal).
Proof.
  intros u st m Hty. split.
  - intros Hk. unfold identity_step. rewrite Hty. tyred.
    destruct (st_args m) as [|idx [|x args]]; try (eexists; reflexivity).
    destruct (atoi_zero idx) as [[|]|]; try (eexists; reflexivity).
    destruct (is_key st) as [k|]; [eexists; reflexivity|contradiction Hk; reflexivity].
  - intros Hi. unfold identity_step. rewrite Hty. tyred.
    destruct (st_args m) as [|idx [|x args]]; try reflexivity.
    specialize (Hi idx eq_refl).
    destruct (atoi_zero idx) as [[|]|]; try reflexivity. contradiction Hi; reflexivity.
Qed.

(** * Index strings *)

Lemma fold_dec_zero : forall (digits : bytes) (a : N),
  forallb is_dec_digit digits = true ->
  fold_left (fun a c => a * 10 + (b2n c - 48)) digits a = 0 ->
  a = 0 /\ Forall (fun c => c = x30) digits.
Proof.
  induction digits as [|c r IH]; intros a Hd Hf.
  - cbn [fold_left] in Hf. split; [exact Hf|constructor].
  - cbn [forallb] in Hd. apply andb_true_iff in Hd. destruct Hd as (Hc & Hr).
    cbn [fold_left] in Hf. apply IH in Hf; [|exact Hr]. destruct Hf as (Ha & Hall).
    unfold is_dec_digit in Hc. apply andb_true_iff in Hc. destruct Hc as (Hlo & Hhi).
    apply N.leb_le in Hlo. split; [lia|].
    constructor; [|exact Hall]. apply b2n_inj. change (b2n x30) with 48. lia.
Qed.

Lemma fold_zeros : forall (zeros : bytes),
  Forall (fun c => c = x30) zeros ->
  forallb is_dec_digit zeros = true /\
  fold_left (fun a c => a * 10 + (b2n c - 48)) zeros 0 = 0.
Proof.
  induction zeros as [|c r IH]; intros H.
  - split; reflexivity.
  - inversion H as [|c' r' Hc Hr]; subst. destruct (IH Hr) as (Hd & Hf).
    cbn [forallb fold_left]. split; [rewrite Hd; reflexivity|exact Hf].
Qed.

Lemma atoi_core_spec : forall (digits : bytes) (neg : bool),
  match digits with
  | [] => None
  | _ =>
      if negb (forallb is_dec_digit digits) then None
      else
        let v := fold_left (fun a c => a * 10 + (b2n c - 48)) digits 0 in
        if N.ltb 9223372036854775808 v then None
        else if N.eqb v 9223372036854775808 && negb neg then None
        else Some (N.eqb v 0)
  end = Some true <-> digits <> [] /\ Forall (fun c => c = x30) digits.
Proof.
  intros digits neg. destruct digits as [|d ds].
  - split; [discriminate|]. intros (H & _). contradiction H; reflexivity.
  - set (L := d :: ds). cbv zeta. split.
    + intros H. split; [discriminate|].
      destruct (forallb is_dec_digit L) eqn:Ed; cbn [negb] in H; [|discriminate H].
      set (v := fold_left (fun a c => a * 10 + (b2n c - 48)) L 0) in *.
      destruct (N.ltb 9223372036854775808 v); [discriminate H|].
      destruct (N.eqb v 9223372036854775808 && negb neg); [discriminate H|].
      injection H as H. apply N.eqb_eq in H.
      apply (fold_dec_zero L 0 Ed H).
    + intros (_ & H). apply fold_zeros in H. destruct H as (Hd & Hf).
      rewrite Hd, Hf. reflexivity.
Qed.

Lemma atoi_zero_spec :
  forall (s : bytes),
    atoi_zero s = Some true <->
    exists sign zeros, s = sign ++ zeros /\ (sign = [] \/ sign = [x2b] \/ sign = [x2d]) /\
                       zeros <> [] /\ Forall (fun c => c = x30) zeros.
Proof.
  intros s. destruct s as [|c r].
  - split; [discriminate|].
    intros (sign & zeros & Hs & _ & Hne & _). symmetry in Hs.
    apply app_eq_nil in Hs. destruct Hs as (_ & Hz). contradiction.
  - destruct (Byte.eqb c x2b || Byte.eqb c x2d) eqn:Es.
    + assert (Hcore : atoi_zero (c :: r) = Some true <-> r <> [] /\ Forall (fun c => c = x30) r).
      { unfold atoi_zero. rewrite Es. exact (atoi_core_spec r (Byte.eqb c x2d)). }
      rewrite Hcore. split.
      * intros (Hne & Hall). exists [c], r. split; [reflexivity|]. split; [|split; assumption].
        apply orb_true_iff in Es. destruct Es as [E|E]; apply byte_eqb_eq in E; subst c; auto.
      * intros (sign & zeros & Hs & Hsign & Hne & Hall).
        destruct Hsign as [->|[->| ->]]; cbn [app] in Hs.
        -- subst zeros. inversion Hall as [|c' r' Hc Hr]; subst. discriminate Es.
        -- injection Hs as _ <-. split; assumption.
        -- injection Hs as _ <-. split; assumption.
    + assert (Hcore : atoi_zero (c :: r) = Some true <->
                      c :: r <> [] /\ Forall (fun c => c = x30) (c :: r)).
      { unfold atoi_zero. rewrite Es. exact (atoi_core_spec (c :: r) (Byte.eqb c x2d)). }
      rewrite Hcore. split.
      * intros (Hne & Hall). exists [], (c :: r). split; [reflexivity|]. split; [left; reflexivity|].
        split; assumption.
      * intros (sign & zeros & Hs & Hsign & Hne & Hall).
        destruct Hsign as [->|[->| ->]]; cbn [app] in Hs.
        -- subst zeros. split; assumption.
        -- injection Hs as -> _. discriminate Es.
        -- injection Hs as -> _. discriminate Es.
Qed.
