(** AgeFacts.v — proofs for the header layer (C01h), header integrity (C03),
    byte layout (C05) and the random tape (C06t).  Lemmas only. *)

From Coq Require Import ZifyN ZifyNat ZifyBool.
From Age Require Import Base Base64 Format FormatIO IO Stream Armor Prims Recipients Age.
From Age Require Import Base64Facts FormatFacts StreamFacts ArmorFacts.

Ltac Zify.zify_post_hook ::= Z.div_mod_to_equations.

(** * Lists and tapes *)

Lemma agf_length_concat : forall (l : list bytes),
  length (concat l) = list_sum (map (@length byte) l).
Proof.
  induction l as [|x l IH]; [reflexivity|].
  cbn [concat map list_sum]. rewrite app_length, IH. reflexivity.
Qed.

Lemma agf_split_nth : forall (A : Type) (l : list A) k x,
  nth_error l k = Some x -> l = firstn k l ++ x :: skipn (S k) l.
Proof.
  intros A l. induction l as [|y l IH]; intros k x H.
  - destruct k; discriminate H.
  - destruct k as [|k]; cbn [nth_error] in H.
    + injection H as ->. reflexivity.
    + cbn [firstn skipn app]. f_equal. exact (IH k x H).
Qed.

Lemma agf_take_spec : forall n (t a b : bytes),
  take n t = Some (a, b) -> t = a ++ b /\ length a = n.
Proof.
  intros n t a b H. unfold take in H.
  destruct (Nat.leb n (length t)) eqn:E; [|discriminate H].
  injection H as <- <-. apply Nat.leb_le in E. split.
  - symmetry. apply firstn_skipn.
  - apply firstn_length_le. exact E.
Qed.

Lemma take_app : forall n (a b : bytes), length a = n -> take n (a ++ b) = Some (a, b).
Proof.
  intros n a b H. unfold take.
  assert (E : Nat.leb n (length (a ++ b)) = true)
    by (apply Nat.leb_le; rewrite app_length; lia).
  rewrite E, (firstn_app_exact _ a b n H), (skipn_app_exact _ a b n H). reflexivity.
Qed.

Lemma take_short : forall n (t : bytes), length t < n -> take n t = None.
Proof.
  intros n t H. unfold take.
  destruct (Nat.leb n (length t)) eqn:E; [apply Nat.leb_le in E; lia|reflexivity].
Qed.

(** * Decimal work factors *)

Lemma agf_digit_byte_b2n : forall d, (d < 10)%N -> b2n (digit_byte d) = (48 + d)%N.
Proof. intros d H. unfold digit_byte. apply Base64Facts.b2n_n2b_small. lia. Qed.

Lemma is_digit_digit_byte : forall d, (d < 10)%N -> is_digit (digit_byte d) = true.
Proof.
  intros d H. unfold is_digit. rewrite agf_digit_byte_b2n by exact H.
  apply andb_true_iff. split; apply N.leb_le; lia.
Qed.

Lemma is_digit_vchar : forall c, is_digit c = true -> vchar c = true.
Proof.
  intros c H. unfold is_digit in H. unfold vchar.
  apply andb_true_iff in H. destruct H as [H1 H2].
  apply N.leb_le in H1. apply N.leb_le in H2.
  apply andb_true_iff. split; apply N.leb_le; lia.
Qed.

Lemma decN_digits : forall f n acc,
  forallb is_digit acc = true -> forallb is_digit (Base.dec_fuel f n acc) = true.
Proof.
  induction f as [|f IH]; intros n acc H; cbn [Base.dec_fuel]; [exact H|].
  assert (H' : forallb is_digit (digit_byte (n mod 10) :: acc) = true).
  { cbn [forallb]. rewrite is_digit_digit_byte by lia. exact H. }
  destruct (N.ltb n 10); [exact H'|apply IH; exact H'].
Qed.

Lemma decN_nonempty : forall f n acc, acc <> [] -> Base.dec_fuel f n acc <> [].
Proof.
  induction f as [|f IH]; intros n acc H; cbn [Base.dec_fuel]; [exact H|].
  destruct (N.ltb n 10); [discriminate|apply IH; discriminate].
Qed.

Lemma dec_of_N_valid : forall n, valid_string (dec_of_N n) = true.
Proof.
  intros n. unfold dec_of_N.
  assert (Hd : forallb is_digit (Base.dec_fuel (S (N.to_nat (N.log2 n))) n []) = true)
    by (apply decN_digits; reflexivity).
  assert (Hne : Base.dec_fuel (S (N.to_nat (N.log2 n))) n [] <> []).
  { cbn [Base.dec_fuel]. destruct (N.ltb n 10); [discriminate|].
    apply decN_nonempty. discriminate. }
  unfold valid_string.
  destruct (Base.dec_fuel (S (N.to_nat (N.log2 n))) n []) as [|c r] eqn:E; [contradiction|].
  apply forallb_forall. intros x Hx. apply is_digit_vchar.
  exact (proj1 (forallb_forall _ _) Hd x Hx).
Qed.

Lemma decN_atoi : forall f n acc,
  (n < 10 ^ N.of_nat f)%N ->
  atoi (Base.dec_fuel f n acc) = fold_left (fun a c => a * 10 + (b2n c - 48))%N acc n.
Proof.
  induction f as [|f IH]; intros n acc H.
  - change (N.of_nat 0) with 0%N in H. rewrite N.pow_0_r in H.
    assert (n = 0%N) by lia. subst n. reflexivity.
  - rewrite Nat2N.inj_succ, N.pow_succ_r' in H. cbn [Base.dec_fuel].
    destruct (N.ltb n 10) eqn:E.
    + apply N.ltb_lt in E. unfold atoi. cbn [fold_left].
      rewrite agf_digit_byte_b2n by lia. f_equal. lia.
    + apply N.ltb_ge in E. rewrite IH by lia. cbn [fold_left].
      rewrite agf_digit_byte_b2n by lia. f_equal. lia.
Qed.

Lemma decN_head : forall f n acc,
  (1 <= n)%N -> (n < 10 ^ N.of_nat f)%N ->
  exists c r, Base.dec_fuel f n acc = c :: r /\ c <> x30.
Proof.
  induction f as [|f IH]; intros n acc H1 H.
  - change (N.of_nat 0) with 0%N in H. rewrite N.pow_0_r in H. lia.
  - rewrite Nat2N.inj_succ, N.pow_succ_r' in H. cbn [Base.dec_fuel].
    destruct (N.ltb n 10) eqn:E.
    + apply N.ltb_lt in E. exists (digit_byte (n mod 10)), acc. split; [reflexivity|].
      intros Heq. apply (f_equal b2n) in Heq. rewrite agf_digit_byte_b2n in Heq by lia.
      change (b2n x30) with 48%N in Heq. lia.
    + apply N.ltb_ge in E. apply IH; lia.
Qed.

Lemma dec_of_N_fuel : forall n, (n < 10 ^ N.of_nat (S (N.to_nat (N.log2 n))))%N.
Proof.
  intros n. rewrite Nat2N.inj_succ, N2Nat.id.
  destruct n as [|p]; [reflexivity|].
  pose proof (N.log2_spec (N.pos p) eq_refl) as [_ Hs].
  pose proof (N.pow_le_mono_l 2 10 (N.succ (N.log2 (N.pos p)))) as Hm.
  lia.
Qed.

(** The direction of [canonical_decimal] (AgeLogic.v) needed here. *)
Lemma dec_of_N_roundtrip : forall n, (1 <= n)%N ->
  digits_re (dec_of_N n) = true /\ atoi (dec_of_N n) = n.
Proof.
  intros n H1. pose proof (dec_of_N_fuel n) as Hf. unfold dec_of_N. split.
  - destruct (decN_head _ n [] H1 Hf) as (c & r & E & Hc).
    pose proof (decN_digits (S (N.to_nat (N.log2 n))) n [] eq_refl) as Hd.
    rewrite E in *. cbn [forallb] in Hd. unfold digits_re.
    apply andb_true_iff in Hd. destruct Hd as [Hd1 Hd2].
    rewrite Hd1, Hd2. apply byte_eqb_neq in Hc. rewrite Hc. reflexivity.
  - rewrite decN_atoi by exact Hf. reflexivity.
Qed.

(** * Well-formed strings *)

Lemma b64_val_vchar : forall c, b64_val c <> None -> vchar c = true.
Proof.
  intros c H. destruct c; try reflexivity; exfalso; apply H; reflexivity.
Qed.

Lemma b64_enc_raw_valid : forall b, b <> [] -> valid_string (b64_enc_raw b) = true.
Proof.
  intros b Hb. unfold valid_string.
  destruct (b64_enc_raw b) as [|x r] eqn:E; [apply b64_enc_raw_nil in E; contradiction|].
  rewrite <- E. apply forallb_forall. intros c Hc.
  apply b64_val_vchar. exact (b64_enc_raw_alpha b c Hc).
Qed.

Lemma agf_length_nonnil : forall (b : bytes) n, length b = S n -> b <> [].
Proof. intros b n H ->. discriminate H. Qed.

Section AgeFacts.
  Variable P : Prims.

  (** * Wrap, case by case *)

  Lemma wrap_like_inv : forall ty label pre tweak their fk tape st l tape',
    wrap_x25519_like P ty label pre tweak their fk tape = Ok (st, l, tape') ->
    exists eph our ss,
      take 32 tape = Some (eph, tape') /\
      x25519 P eph basepoint = Some our /\ x25519 P eph their = Some ss /\
      l = [] /\
      st = [mkStanza ty (pre ++ [b64_enc_raw our])
              (aead_seal P
                 (hkdf32 P (match tweak with
                            | Some t => opt_or_empty (x25519 P t ss)
                            | None => ss
                            end) (our ++ their) label) zero_nonce fk)].
  Proof.
    intros ty label pre tweak their fk tape st l tape' H.
    unfold wrap_x25519_like in H.
    destruct (take 32 tape) as [[eph t1]|] eqn:Et; [|discriminate H].
    destruct (x25519 P eph basepoint) as [our|] eqn:Eo; [|discriminate H].
    destruct (x25519 P eph their) as [ss|] eqn:Es; [|discriminate H].
    injection H as <- <- <-.
    exists eph, our, ss. repeat split; assumption.
  Qed.

  Lemma wrap_like_intro : forall ty label pre tweak their fk tape eph rest our ss,
    take 32 tape = Some (eph, rest) ->
    x25519 P eph basepoint = Some our -> x25519 P eph their = Some ss ->
    wrap_x25519_like P ty label pre tweak their fk tape =
      Ok ([mkStanza ty (pre ++ [b64_enc_raw our])
              (aead_seal P
                 (hkdf32 P (match tweak with
                            | Some t => opt_or_empty (x25519 P t ss)
                            | None => ss
                            end) (our ++ their) label) zero_nonce fk)], [], rest).
  Proof.
    intros ty label pre tweak their fk tape eph rest our ss Ht Ho Hs.
    unfold wrap_x25519_like. rewrite Ht, Ho, Hs. reflexivity.
  Qed.

  (** ** C05: byte layout *)

  Lemma file_shape :
    forall (cs : nat) (pl : enc_plan) (p : bytes),
      file_bytes P cs pl p =
        line intro_line
        ++ concat (map marshal_stanza (h_stanzas (ep_header pl)))
        ++ bs "--- " ++ b64_enc_raw (h_mac (ep_header pl)) ++ [LF]
        ++ ep_nonce pl
        ++ encrypt_spec cs (aead_seal P (hkdf32 P (ep_file_key pl) (ep_nonce pl) (bs "payload"))) p.
  Proof.
    intros cs pl p. unfold file_bytes, marshal, marshal_without_mac, stream_key.
    change (bs "--- ") with (footer_prefix ++ [SP]).
    change payload_info with (bs "payload").
    repeat rewrite <- app_assoc. cbn [app]. repeat rewrite <- app_assoc. reflexivity.
  Qed.

  Lemma plan_encrypt_inv : forall rs tape pl,
    plan_encrypt P rs tape = Ok pl ->
    rs <> [] /\
    exists fk t1 ss t2 nonce t3,
      take file_key_size tape = Some (fk, t1) /\
      wrap_all P rs fk t1 None [] = Ok (ss, t2) /\
      take stream_nonce_size t2 = Some (nonce, t3) /\
      pl = mkPlan fk ss (mkHeader ss (header_mac P fk ss)) nonce t3.
  Proof.
    intros rs tape pl H. unfold plan_encrypt in H.
    destruct rs as [|r0 rs0]; [discriminate H|]. split; [discriminate|].
    destruct (take file_key_size tape) as [[fk t1]|] eqn:Et; [|discriminate H].
    destruct (wrap_all P (r0 :: rs0) fk t1 None []) as [[ss t2]|c|n] eqn:Ew;
      cbn [bind] in H; try discriminate H.
    destruct (take stream_nonce_size t2) as [[nonce t3]|] eqn:En; [|discriminate H].
    injection H as <-.
    exists fk, t1, ss, t2, nonce, t3. repeat split; assumption.
  Qed.

  Lemma mac_shape :
    forall (rs : list recipient) (tape : bytes) (pl : enc_plan),
      plan_encrypt P rs tape = Ok pl ->
      ep_header pl = mkHeader (ep_stanzas pl)
                       (hmac P (hkdf32 P (ep_file_key pl) [] (bs "header"))
                             (line intro_line ++ concat (map marshal_stanza (ep_stanzas pl)) ++ bs "---")) /\
      length (ep_file_key pl) = 16%nat /\ length (ep_nonce pl) = 16%nat.
  Proof.
    intros rs tape pl H. apply plan_encrypt_inv in H.
    destruct H as (_ & fk & t1 & ss & t2 & nonce & t3 & Hk & _ & Hn & ->).
    cbn [ep_header ep_stanzas ep_file_key ep_nonce].
    apply agf_take_spec in Hk. apply agf_take_spec in Hn.
    split; [reflexivity|]. split; [exact (proj2 Hk)|exact (proj2 Hn)].
  Qed.

  Lemma x25519_stanza_shape :
    forall (pub fk tape eph rest share ss : bytes),
      take 32 tape = Some (eph, rest) ->
      x25519 P eph basepoint = Some share -> x25519 P eph pub = Some ss ->
      wrap P (RX25519 pub) fk tape =
        Ok ([mkStanza (bs "X25519") [b64_enc_raw share]
               (aead_seal P (hkdf32 P ss (share ++ pub) (bs "age-encryption.org/v1/X25519"))
                          (repeat x00 12) fk)], [], rest).
  Proof.
    intros pub fk tape eph rest share ss Ht Ho Hs. cbn [wrap].
    rewrite (wrap_like_intro _ _ _ _ _ _ _ _ _ _ _ Ht Ho Hs). reflexivity.
  Qed.

  Lemma scrypt_stanza_shape :
    forall (pass fk tape salt rest rnd rest' : bytes) (logN : N),
      take 16 tape = Some (salt, rest) -> take 16 rest = Some (rnd, rest') ->
      wrap P (RScrypt pass logN) fk tape =
        Ok ([mkStanza (bs "scrypt") [b64_enc_raw salt; dec_of_N logN]
               (aead_seal P (scrypt P pass (bs "age-encryption.org/v1/scrypt" ++ salt) logN)
                          (repeat x00 12) fk)], [hex_of rnd], rest').
  Proof.
    intros pass fk tape salt rest rnd rest' logN H1 H2. cbn [wrap].
    rewrite H1, H2. reflexivity.
  Qed.

  Lemma ssh_ed25519_stanza_shape :
    forall (blob mont fk tape eph rest share ss : bytes),
      take 32 tape = Some (eph, rest) ->
      x25519 P eph basepoint = Some share -> x25519 P eph mont = Some ss ->
      wrap P (RSshEd blob mont) fk tape =
        Ok ([mkStanza (bs "ssh-ed25519")
               [b64_enc_raw (firstn 4 (sha256 P blob)); b64_enc_raw share]
               (aead_seal P
                  (hkdf32 P
                     (match x25519 P (hkdf32 P [] blob (bs "age-encryption.org/v1/ssh-ed25519")) ss with
                      | Some t => t | None => [] end)
                     (share ++ mont) (bs "age-encryption.org/v1/ssh-ed25519"))
                  (repeat x00 12) fk)], [], rest).
  Proof.
    intros blob mont fk tape eph rest share ss Ht Ho Hs. cbn [wrap].
    rewrite (wrap_like_intro _ _ _ _ _ _ _ _ _ _ _ Ht Ho Hs). reflexivity.
  Qed.

  Lemma ssh_rsa_stanza_shape :
    forall (blob fk tape coins rest : bytes),
      take 32 tape = Some (coins, rest) ->
      wrap P (RSshRsa blob) fk tape =
        Ok ([mkStanza (bs "ssh-rsa") [b64_enc_raw (firstn 4 (sha256 P blob))]
               (rsa_encrypt P blob (bs "age-encryption.org/v1/ssh-rsa") fk coins)], [], rest).
  Proof.
    intros blob fk tape coins rest Ht. cbn [wrap]. rewrite Ht. reflexivity.
  Qed.

  (** * The recipient loop *)

  Lemma wrap_all_each : forall rs fk tape lab acc ss t',
    wrap_all P rs fk tape lab acc = Ok (ss, t') ->
    exists results,
      wrap_each P rs fk tape = Ok (results, t') /\ ss = acc ++ concat (map fst results).
  Proof.
    induction rs as [|r rest IH]; intros fk tape lab acc ss t' H.
    - cbn [wrap_all] in H. injection H as <- <-. exists []. split; [reflexivity|].
      cbn [map concat]. symmetry. apply app_nil_r.
    - cbn [wrap_all] in H. cbn [wrap_each].
      destruct (wrap P r fk tape) as [[[st l] tp]|c|n] eqn:W.
      + assert (Hrec : exists lab', wrap_all P rest fk tp lab' (acc ++ st) = Ok (ss, t')).
        { destruct lab as [l0|].
          - destruct (labels_eqb l0 (sort_labels l)); [|discriminate H]. eexists; exact H.
          - eexists; exact H. }
        destruct Hrec as [lab' Hrec]. apply IH in Hrec.
        destruct Hrec as (results & He & Hs).
        exists ((st, l) :: results). rewrite He. cbn [bind]. split; [reflexivity|].
        cbn [map concat fst]. rewrite Hs, app_assoc. reflexivity.
      + destruct c; discriminate H.
      + discriminate H.
  Qed.

  Lemma wrap_each_nth : forall rs fk tape results t' k r,
    wrap_each P rs fk tape = Ok (results, t') ->
    nth_error rs k = Some r ->
    exists tk st l tk',
      wrap P r fk tk = Ok (st, l, tk') /\ nth_error results k = Some (st, l).
  Proof.
    induction rs as [|r0 rest IH]; intros fk tape results t' k r H Hk.
    - destruct k; discriminate Hk.
    - cbn [wrap_each] in H.
      destruct (wrap P r0 fk tape) as [[[st l] tp]|c|n] eqn:W;
        [|destruct c; discriminate H|discriminate H].
      destruct (wrap_each P rest fk tp) as [[more t'']|c|n] eqn:E;
        cbn [bind] in H; try discriminate H.
      injection H as <- <-.
      destruct k as [|k]; cbn [nth_error] in Hk.
      + injection Hk as <-. exists tape, st, l, tp. split; [exact W|reflexivity].
      + destruct (IH fk tp more t'' k r E Hk) as (tk & st' & l' & tk' & Hw & Hn).
        exists tk, st', l', tk'. split; [exact Hw|exact Hn].
  Qed.

  (** ** C06: the random tape *)

  Lemma wrap_reads_prefix :
    forall (r : recipient) (fk tape tape' : bytes) st l,
      wrap P r fk tape = Ok (st, l, tape') ->
      exists seg, tape = seg ++ tape' /\ length seg = tape_need r /\
                  forall junk, wrap P r fk (seg ++ junk) = Ok (st, l, junk).
  Proof.
    intros r fk tape tape' st l H.
    assert (Hlike : forall ty label pre tweak their,
      wrap_x25519_like P ty label pre tweak their fk tape = Ok (st, l, tape') ->
      exists seg, tape = seg ++ tape' /\ length seg = 32 /\
        forall junk, wrap_x25519_like P ty label pre tweak their fk (seg ++ junk) = Ok (st, l, junk)).
    { intros ty label pre tweak their Hw. apply wrap_like_inv in Hw.
      destruct Hw as (eph & our & ss & Ht & Ho & Hs & -> & ->).
      apply agf_take_spec in Ht. destruct Ht as [Ht Hl].
      exists eph. split; [exact Ht|]. split; [exact Hl|]. intros junk.
      apply (wrap_like_intro _ _ _ _ _ _ _ eph junk our ss); try assumption.
      apply take_app. exact Hl. }
    destruct r as [pub|pass logN|blob mont|blob|stz labs fails]; cbn [wrap tape_need] in *.
    - apply Hlike. exact H.
    - destruct (take 16 tape) as [[salt t1]|] eqn:E1; [|discriminate H].
      destruct (take 16 t1) as [[rnd t2]|] eqn:E2; [|discriminate H].
      injection H as <- <- <-.
      apply agf_take_spec in E1. destruct E1 as [E1 L1].
      apply agf_take_spec in E2. destruct E2 as [E2 L2].
      exists (salt ++ rnd). split; [rewrite E1, E2, app_assoc; reflexivity|].
      split; [rewrite app_length; lia|]. intros junk.
      rewrite <- app_assoc, (take_app 16 salt (rnd ++ junk) L1), (take_app 16 rnd junk L2).
      reflexivity.
    - apply Hlike. exact H.
    - destruct (take 32 tape) as [[coins t1]|] eqn:E1; [|discriminate H].
      injection H as <- <- <-.
      apply agf_take_spec in E1. destruct E1 as [E1 L1].
      exists coins. split; [exact E1|]. split; [exact L1|]. intros junk.
      rewrite (take_app 32 coins junk L1). reflexivity.
    - destruct fails; [discriminate H|]. injection H as <- <- <-.
      exists []. split; [reflexivity|]. split; [reflexivity|]. intros junk. reflexivity.
  Qed.

  Lemma wrap_each_segs : forall rs fk tape results t',
    wrap_each P rs fk tape = Ok (results, t') ->
    exists segs,
      tape = concat segs ++ t' /\
      map (@length byte) segs = map tape_need rs /\
      length results = length rs /\
      forall k r seg res,
        nth_error rs k = Some r -> nth_error segs k = Some seg ->
        nth_error results k = Some res ->
        forall junk, wrap P r fk (seg ++ junk) = Ok (fst res, snd res, junk).
  Proof.
    induction rs as [|r0 rest IH]; intros fk tape results t' H.
    - cbn [wrap_each] in H. injection H as <- <-. exists []. repeat split.
      intros k r seg res Hk. destruct k; discriminate Hk.
    - cbn [wrap_each] in H.
      destruct (wrap P r0 fk tape) as [[[st l] tp]|c|n] eqn:W;
        [|destruct c; discriminate H|discriminate H].
      destruct (wrap_each P rest fk tp) as [[more t'']|c|n] eqn:E;
        cbn [bind] in H; try discriminate H.
      injection H as <- <-.
      destruct (wrap_reads_prefix _ _ _ _ _ _ W) as (seg0 & Ht & Hl & Hj).
      destruct (IH fk tp more t'' E) as (segs & Ht' & Hm & Hlen & Hnth).
      exists (seg0 :: segs). split; [|split; [|split]].
      + cbn [concat]. rewrite <- app_assoc, <- Ht'. exact Ht.
      + cbn [map]. rewrite Hl, Hm. reflexivity.
      + cbn [length]. rewrite Hlen. reflexivity.
      + intros k r seg res Hk Hs Hr junk. destruct k as [|k]; cbn [nth_error] in Hk, Hs, Hr.
        * injection Hk as <-. injection Hs as <-. injection Hr as <-. apply Hj.
        * exact (Hnth k r seg res Hk Hs Hr junk).
  Qed.

  Lemma tape_linear :
    forall (rs : list recipient) (tape : bytes) (pl : enc_plan),
      plan_encrypt P rs tape = Ok pl ->
      exists (segs : list bytes),
        tape = ep_file_key pl ++ concat segs ++ ep_nonce pl ++ ep_tape pl /\
        length (ep_file_key pl) = 16 /\ length (ep_nonce pl) = 16 /\
        map (@length byte) segs = map tape_need rs /\
        exists results,
          ep_stanzas pl = concat (map fst results) /\
          length results = length rs /\
          forall k r seg res,
            nth_error rs k = Some r -> nth_error segs k = Some seg -> nth_error results k = Some res ->
            forall junk, wrap P r (ep_file_key pl) (seg ++ junk) = Ok (fst res, snd res, junk).
  Proof.
    intros rs tape pl H. apply plan_encrypt_inv in H.
    destruct H as (_ & fk & t1 & ss & t2 & nonce & t3 & Hk & Hw & Hn & ->).
    cbn [ep_header ep_stanzas ep_file_key ep_nonce ep_tape].
    apply agf_take_spec in Hk. destruct Hk as [Hk Lk].
    apply agf_take_spec in Hn. destruct Hn as [Hn Ln].
    apply wrap_all_each in Hw. destruct Hw as (results & He & Hs). cbn [app] in Hs.
    destruct (wrap_each_segs _ _ _ _ _ He) as (segs & Ht & Hm & Hlen & Hnth).
    exists segs. split; [|split; [exact Lk|split; [exact Ln|split; [exact Hm|]]]].
    - rewrite Hk, Ht, Hn. reflexivity.
    - exists results. split; [exact Hs|]. split; [exact Hlen|exact Hnth].
  Qed.

  Lemma history_disjoint :
    forall (rss : list (list recipient)) (tape tape' : bytes) (pls : list enc_plan),
      encrypt_history P rss tape = Ok (pls, tape') ->
      exists (consumed : list bytes),
        tape = concat consumed ++ tape' /\
        length consumed = length pls /\
        forall k pl c, nth_error pls k = Some pl -> nth_error consumed k = Some c ->
          exists segs, c = ep_file_key pl ++ concat segs ++ ep_nonce pl /\
                       length (ep_file_key pl) = 16 /\ length (ep_nonce pl) = 16.
  Proof.
    induction rss as [|rs rest IH]; intros tape tape' pls H.
    - cbn [encrypt_history] in H. injection H as <- <-. exists []. repeat split.
      intros k pl c Hk. destruct k; discriminate Hk.
    - cbn [encrypt_history] in H.
      destruct (plan_encrypt P rs tape) as [pl0|c|n] eqn:Ep; cbn [bind] in H; try discriminate H.
      destruct (encrypt_history P rest (ep_tape pl0)) as [[pls0 tp]|c|n] eqn:Eh;
        cbn [bind] in H; try discriminate H.
      injection H as <- <-.
      destruct (tape_linear _ _ _ Ep) as (segs & Ht & Lk & Ln & _).
      destruct (IH _ _ _ Eh) as (consumed & Ht' & Hlen & Hnth).
      exists ((ep_file_key pl0 ++ concat segs ++ ep_nonce pl0) :: consumed).
      split; [|split].
      + cbn [concat]. rewrite Ht at 1. rewrite Ht' at 1.
        repeat rewrite <- app_assoc. reflexivity.
      + cbn [length]. rewrite Hlen. reflexivity.
      + intros k pl c Hk Hc. destruct k as [|k]; cbn [nth_error] in Hk, Hc.
        * injection Hk as <-. injection Hc as <-. exists segs. repeat split; assumption.
        * exact (Hnth k pl c Hk Hc).
  Qed.

  Lemma short_tape_error :
    forall (rs : list recipient) (tape : bytes),
      rs <> [] ->
      length tape < 16 + list_sum (map tape_need rs) + 16 ->
      is_ok (plan_encrypt P rs tape) = false.
  Proof.
    intros rs tape _ Hlen.
    destruct (plan_encrypt P rs tape) as [pl|c|n] eqn:Ep; try reflexivity.
    exfalso. destruct (tape_linear _ _ _ Ep) as (segs & Ht & Lk & Ln & Hm & _).
    apply (f_equal (@length byte)) in Ht.
    repeat rewrite app_length in Ht. rewrite agf_length_concat, Hm in Ht. lia.
  Qed.

  (** * multiUnwrap and Identity.Unwrap *)

  Lemma mu_skip : forall f s rest,
    fst (f s) = Err EIncorrect ->
    fst (multi_unwrap f (s :: rest)) = fst (multi_unwrap f rest).
  Proof.
    intros f s rest H. cbn [multi_unwrap]. destruct (f s) as [r w]. cbn [fst] in H. subst r.
    destruct (multi_unwrap f rest) as [r' w']. reflexivity.
  Qed.

  Lemma mu_hit : forall f s rest,
    fst (f s) <> Err EIncorrect ->
    fst (multi_unwrap f (s :: rest)) = fst (f s).
  Proof.
    intros f s rest H. cbn [multi_unwrap]. destruct (f s) as [r w]. cbn [fst] in *.
    destruct r as [a|c|n]; try reflexivity. destruct c; try reflexivity. contradiction.
  Qed.

  Lemma mu_skip_app : forall f before rest,
    Forall (fun s => fst (f s) = Err EIncorrect) before ->
    fst (multi_unwrap f (before ++ rest)) = fst (multi_unwrap f rest).
  Proof.
    intros f before rest H. induction H as [|s before Hs _ IH]; [reflexivity|].
    cbn [app]. rewrite mu_skip by exact Hs. exact IH.
  Qed.

  Lemma mu_filter : forall f ss,
    fst (multi_unwrap f ss)
    = fst (multi_unwrap f
             (filter (fun s => negb (match fst (f s) with Err EIncorrect => true | _ => false end)) ss)).
  Proof.
    intros f. induction ss as [|s rest IH]; [reflexivity|].
    cbn [filter].
    destruct (match fst (f s) with Err EIncorrect => true | _ => false end) eqn:E; cbn [negb].
    - assert (Hs : fst (f s) = Err EIncorrect).
      { destruct (fst (f s)) as [a|c|n]; try discriminate E. destruct c; try discriminate E.
        reflexivity. }
      rewrite mu_skip by exact Hs. exact IH.
    - assert (Hs : fst (f s) <> Err EIncorrect).
      { intros Hc. rewrite Hc in E. discriminate E. }
      rewrite !mu_hit by exact Hs. reflexivity.
  Qed.

  Lemma unwrap_multi : forall i ss,
    (match i with IScrypt _ _ => length ss = 1 | IStub _ => False | _ => True end) ->
    unwrap P i ss = multi_unwrap (unwrap_one P i) ss.
  Proof.
    intros i ss H. destruct i as [sec pub|pass m|blob sec pub|blob|ans];
      cbn [unwrap unwrap_one]; try reflexivity; [|contradiction].
    rewrite H. cbn [Nat.eqb negb]. rewrite andb_false_r. reflexivity.
  Qed.

  Lemma skipped_stanzas_irrelevant :
    forall (i : identity) (ss ss' : list stanza),
      (match i with IScrypt _ _ => False | IStub _ => False | _ => True end) ->
      filter (fun s => negb (match fst (unwrap_one P i s) with Err EIncorrect => true | _ => false end)) ss
      = filter (fun s => negb (match fst (unwrap_one P i s) with Err EIncorrect => true | _ => false end)) ss' ->
      fst (unwrap P i ss) = fst (unwrap P i ss').
  Proof.
    intros i ss ss' Hi Hf.
    rewrite !unwrap_multi by (destruct i; solve [contradiction|exact I]).
    rewrite (mu_filter _ ss), (mu_filter _ ss'), Hf. reflexivity.
  Qed.

  (** * Decrypt *)

  Lemma decrypt_open_Ok_inv : forall ids file o n e w,
    decrypt_open P ids file = (Ok o, n, e, w) ->
    exists h payload fk,
      parse file = Ok (h, payload) /\
      identity_loop P ids (h_stanzas h) 0 0 [] = (Ok fk, n, e, w) /\
      header_mac P fk (h_stanzas h) = h_mac h /\
      stream_nonce_size <= length payload /\
      o = mkDecOpen (stream_key P fk (firstn stream_nonce_size payload))
                    (skipn stream_nonce_size payload) fk n.
  Proof.
    intros ids file o n e w H. unfold decrypt_open in H.
    destruct ids as [|i0 ids0]; [discriminate H|].
    destruct (parse file) as [[h payload]|c|k]; try discriminate H.
    destruct (identity_loop P (i0 :: ids0) (h_stanzas h) 0 0 []) as [[[r n'] e'] w'] eqn:El.
    destruct r as [fk|c|k]; try discriminate H.
    destruct (bytes_eqb (header_mac P fk (h_stanzas h)) (h_mac h)) eqn:Em;
      cbn [negb] in H; [|discriminate H].
    destruct (Nat.ltb (length payload) stream_nonce_size) eqn:En; [discriminate H|].
    injection H as <- <- <- <-.
    exists h, payload, fk. apply bytes_eqb_eq in Em. apply Nat.ltb_ge in En.
    repeat split; assumption.
  Qed.

  Lemma decrypt_open_Ok_intro : forall ids file h payload fk n e w,
    ids <> [] ->
    parse file = Ok (h, payload) ->
    identity_loop P ids (h_stanzas h) 0 0 [] = (Ok fk, n, e, w) ->
    header_mac P fk (h_stanzas h) = h_mac h ->
    stream_nonce_size <= length payload ->
    decrypt_open P ids file =
      (Ok (mkDecOpen (stream_key P fk (firstn stream_nonce_size payload))
                     (skipn stream_nonce_size payload) fk n), n, e, w).
  Proof.
    intros ids file h payload fk n e w Hne Hp Hl Hm Hn. unfold decrypt_open.
    destruct ids as [|i0 ids0]; [contradiction|].
    rewrite Hp, Hl, Hm, bytes_eqb_refl. cbn [negb].
    apply Nat.ltb_ge in Hn. rewrite Hn. reflexivity.
  Qed.

  (** ** C03: header integrity *)

  Lemma mwm_inj : forall s1 s2,
    forallb wf_stanza s1 = true -> forallb wf_stanza s2 = true ->
    marshal_without_mac s1 = marshal_without_mac s2 -> s1 = s2.
  Proof.
    intros s1 s2 H1 H2 Heq.
    assert (W1 : wf_header (mkHeader s1 (repeat x00 32)) = true)
      by (apply wf_header_spec; split; [exact H1|reflexivity]).
    assert (W2 : wf_header (mkHeader s2 (repeat x00 32)) = true)
      by (apply wf_header_spec; split; [exact H2|reflexivity]).
    pose proof (marshal_parse _ [] W1) as P1. pose proof (marshal_parse _ [] W2) as P2.
    assert (E : marshal (mkHeader s1 (repeat x00 32)) = marshal (mkHeader s2 (repeat x00 32))).
    { unfold marshal. cbn [h_stanzas h_mac]. rewrite Heq. reflexivity. }
    rewrite E, P2 in P1. injection P1 as ->. reflexivity.
  Qed.

  Lemma header_bound :
    forall (h h' : header) (fk rest : bytes) (ids : list identity) (o : dec_open) n e w,
      wf_header h = true ->
      h_mac h = header_mac P fk (h_stanzas h) ->
      wf_header h' = true -> h' <> h ->
      decrypt_open P ids (marshal h' ++ rest) = (Ok o, n, e, w) ->
      do_file_key o <> fk \/
      (h_stanzas h' <> h_stanzas h /\
       hmac P (hkdf32 P fk [] header_info) (marshal_without_mac (h_stanzas h')) = h_mac h' /\
       marshal_without_mac (h_stanzas h') <> marshal_without_mac (h_stanzas h)).
  Proof.
    intros h h' fk rest ids o n e w Hwf Hmac Hwf' Hne Hd.
    apply decrypt_open_Ok_inv in Hd.
    destruct Hd as (h1 & payload & fk' & Hp & _ & Hm & _ & ->).
    rewrite (marshal_parse h' rest Hwf') in Hp. injection Hp as <- <-.
    cbn [do_file_key].
    destruct (list_eq_dec Byte.byte_eq_dec fk' fk) as [->|Hk]; [right|left; exact Hk].
    assert (Hst : h_stanzas h' <> h_stanzas h).
    { intros Heq. apply Hne. destruct h as [s m], h' as [s' m']. cbn [h_stanzas h_mac] in *.
      subst s'. rewrite Hmac, Hm. reflexivity. }
    split; [exact Hst|]. split; [exact Hm|].
    intros Heq. apply Hst.
    apply wf_header_spec in Hwf. apply wf_header_spec in Hwf'.
    exact (mwm_inj _ _ (proj1 Hwf') (proj1 Hwf) Heq).
  Qed.

  Lemma unparseable_no_reader :
    forall (ids : list identity) (file : bytes) c,
      parse file = Err c ->
      fst (fst (fst (decrypt_open P ids file))) = Err EHeader \/
      fst (fst (fst (decrypt_open P ids file))) = Err EArgs.
  Proof.
    intros ids file c H. unfold decrypt_open. destruct ids as [|i0 ids0].
    - right. reflexivity.
    - left. rewrite H. reflexivity.
  Qed.

  Lemma other_recipients_edit :
    forall (h h' : header) (fk rest : bytes) (i : identity) (o : dec_open) n e w,
      (match i with IScrypt _ _ => False | IStub _ => False | _ => True end) ->
      wf_header h = true ->
      h_mac h = header_mac P fk (h_stanzas h) ->
      fst (unwrap P i (h_stanzas h)) = Ok fk ->
      wf_header h' = true -> h' <> h ->
      filter (fun s => negb (match fst (unwrap_one P i s) with Err EIncorrect => true | _ => false end)) (h_stanzas h)
      = filter (fun s => negb (match fst (unwrap_one P i s) with Err EIncorrect => true | _ => false end)) (h_stanzas h') ->
      decrypt_open P [i] (marshal h' ++ rest) = (Ok o, n, e, w) ->
      h_stanzas h' <> h_stanzas h /\
      hmac P (hkdf32 P fk [] header_info) (marshal_without_mac (h_stanzas h')) = h_mac h' /\
      marshal_without_mac (h_stanzas h') <> marshal_without_mac (h_stanzas h).
  Proof.
    intros h h' fk rest i o n e w Hi Hwf Hmac Hu Hwf' Hne Hf Hd.
    destruct (header_bound h h' fk rest [i] o n e w Hwf Hmac Hwf' Hne Hd) as [Hk|Hr];
      [exfalso|exact Hr].
    apply Hk. apply decrypt_open_Ok_inv in Hd.
    destruct Hd as (h1 & payload & fk' & Hp & Hl & _ & _ & ->).
    rewrite (marshal_parse h' rest Hwf') in Hp. injection Hp as <- <-.
    cbn [do_file_key]. cbn [identity_loop] in Hl.
    rewrite (skipped_stanzas_irrelevant i _ _ Hi Hf) in Hu.
    destruct (unwrap P i (h_stanzas h')) as [r w0]. cbn [fst] in Hu. subst r.
    destruct fk as [|b fk0]; [discriminate Hl|]. injection Hl as <- _ _ _. reflexivity.
  Qed.

  Lemma identity_loop_pre : forall pre i post ss fk c e w,
    Forall (fun j => fst (unwrap P j ss) = Err EIncorrect) pre ->
    fst (unwrap P i ss) = Ok fk -> fk <> [] ->
    exists w', identity_loop P (pre ++ i :: post) ss c e w
               = (Ok fk, S (length pre + c), length pre + e, w').
  Proof.
    induction pre as [|j pre IH]; intros i post ss fk c e w Hpre Hi Hne.
    - cbn [app identity_loop length Nat.add].
      destruct (unwrap P i ss) as [r w0]. cbn [fst] in Hi. subst r.
      destruct fk as [|b fk0]; [contradiction|]. eexists. reflexivity.
    - cbn [app identity_loop length Nat.add].
      pose proof (Forall_inv Hpre) as Hj. pose proof (Forall_inv_tail Hpre) as Hpre'.
      cbn beta in Hj. destruct (unwrap P j ss) as [r w0]. cbn [fst] in Hj. subst r.
      destruct (IH i post ss fk (S c) (S e) (w ++ w0) Hpre' Hi Hne) as [w' Hw'].
      exists w'. rewrite Hw', !Nat.add_succ_r. reflexivity.
  Qed.

  Lemma armor_transparent :
    forall (cs : nat) (pl : enc_plan) (p : bytes) (ws : list bytes),
      concat ws = file_bytes P cs pl p ->
      dearmor (armor_run ws) = Ok (file_bytes P cs pl p, CleanEOF).
  Proof. intros cs pl p ws H. rewrite <- H. apply dearmor_armor_run. Qed.

  (** * C01 (header layer) *)

  Section Crypto.
    Hypothesis HA : AeadCorrect P.
    Hypothesis HD : DhAgree P.
    Hypothesis HL : DhLen P.
    Hypothesis HR : RsaCorrect P.

    Lemma sized_open : forall k fk, length fk = 16 ->
      aead_decrypt_sized P k file_key_size (aead_seal P k zero_nonce fk) = Ok fk.
    Proof.
      intros k fk Hfk. unfold aead_decrypt_sized. destruct HA as [Ho Hl].
      rewrite Hl, Hfk, Ho. reflexivity.
    Qed.

    Lemma own_stanza_opens :
      forall (i : identity) (r : recipient) (fk tape tape' : bytes) st l,
        matches P i r -> length fk = 16%nat ->
        wrap P r fk tape = Ok (st, l, tape') ->
        st <> [] /\ Forall (fun s => fst (unwrap_one P i s) = Ok fk) st.
    Proof.
      intros i r fk tape tape' st l Hm Hfk Hw.
      destruct i as [sec pub|pass m|blob sec pub|blob|ans],
               r as [pub'|pass' n|blob' mont|blob'|stz labs fails];
        cbn [matches] in Hm; try contradiction.
      - (* X25519 *)
        destruct Hm as [-> Hpub]. cbn [wrap] in Hw. apply wrap_like_inv in Hw.
        destruct Hw as (eph & our & ss & Ht & Ho & Hs & _ & ->).
        split; [discriminate|]. constructor; [|constructor].
        cbn [unwrap_one]. unfold nolog. cbn [fst]. unfold unwrap_x25519.
        cbn [st_type st_args st_body app].
        rewrite bytes_eqb_refl. cbn [negb]. rewrite b64_raw_dec_enc, (HL _ _ _ Ho).
        cbn [Nat.eqb negb].
        destruct (HD eph sec our pub Ho Hpub) as (s & Hs1 & Hs2).
        rewrite Hs in Hs1. injection Hs1 as <-. rewrite Hs2.
        apply sized_open. exact Hfk.
      - (* scrypt *)
        destruct Hm as (-> & H1 & H2 & H3). cbn [wrap] in Hw.
        destruct (take 16 tape) as [[salt t1]|] eqn:E1; [|discriminate Hw].
        destruct (take 16 t1) as [[rnd t2]|] eqn:E2; [|discriminate Hw].
        injection Hw as <- _ _.
        apply agf_take_spec in E1. destruct E1 as [_ L1].
        split; [discriminate|]. constructor; [|constructor].
        cbn [unwrap_one]. unfold unwrap_scrypt. cbn [st_type st_args st_body].
        rewrite bytes_eqb_refl. cbn [negb]. rewrite b64_raw_dec_enc, L1.
        cbn [Nat.eqb negb].
        destruct (dec_of_N_roundtrip n H1) as [Hd Ha]. rewrite Hd, Ha. cbn [negb].
        replace (N.ltb max_int n) with false by (symmetry; apply N.ltb_ge; exact H3).
        replace (N.ltb m n) with false by (symmetry; apply N.ltb_ge; exact H2).
        replace (N.eqb n 0) with false by (symmetry; apply N.eqb_neq; lia).
        cbn [fst]. apply sized_open. exact Hfk.
      - (* ssh-ed25519 *)
        destruct Hm as (-> & -> & Hpub). cbn [wrap] in Hw. apply wrap_like_inv in Hw.
        destruct Hw as (eph & our & ss & Ht & Ho & Hs & _ & ->).
        split; [discriminate|]. constructor; [|constructor].
        cbn [unwrap_one]. unfold nolog. cbn [fst]. unfold unwrap_ssh_ed.
        cbn [st_type st_args st_body app].
        rewrite !bytes_eqb_refl. cbn [negb]. rewrite b64_raw_dec_enc, (HL _ _ _ Ho).
        cbn [Nat.eqb negb].
        destruct (HD eph sec our pub Ho Hpub) as (s & Hs1 & Hs2).
        rewrite Hs in Hs1. injection Hs1 as <-. rewrite Hs2.
        rewrite (proj1 HA). reflexivity.
      - (* ssh-rsa *)
        subst blob'. cbn [wrap] in Hw.
        destruct (take 32 tape) as [[coins t1]|] eqn:E1; [|discriminate Hw].
        injection Hw as <- _ _.
        split; [discriminate|]. constructor; [|constructor].
        cbn [unwrap_one]. unfold nolog. cbn [fst]. unfold unwrap_ssh_rsa.
        cbn [st_type st_args st_body].
        rewrite !bytes_eqb_refl. cbn [negb]. rewrite HR. reflexivity.
    Qed.

    (** Guarded: the SSH tag is the base64 of the first four bytes of the key
        hash, an empty hash would give an empty (invalid) argument; see
        [native_stanzas_wf_refuted]. *)
    Lemma native_stanzas_wf :
      forall (r : recipient) (fk tape tape' : bytes) st l,
        (match r with RStub _ _ _ => False | _ => True end) ->
        (match r with RSshEd blob _ | RSshRsa blob => sha256 P blob <> [] | _ => True end) ->
        wrap P r fk tape = Ok (st, l, tape') -> Forall (fun s => wf_stanza s = true) st.
    Proof.
      intros r fk tape tape' st l Hr Hsha Hw.
      assert (Htag : forall blob, sha256 P blob <> [] -> valid_string (ssh_tag P blob) = true).
      { intros blob Hb. unfold ssh_tag. apply b64_enc_raw_valid.
        destruct (sha256 P blob); [contradiction|discriminate]. }
      destruct r as [pub|pass logN|blob mont|blob|stz labs fails]; [| | | |contradiction];
        cbn [wrap] in Hw.
      - apply wrap_like_inv in Hw. destruct Hw as (eph & our & ss & Ht & Ho & Hs & _ & ->).
        constructor; [|constructor]. unfold wf_stanza. cbn [st_type st_args app forallb].
        rewrite b64_enc_raw_valid by (apply (agf_length_nonnil _ 31); exact (HL _ _ _ Ho)).
        reflexivity.
      - destruct (take 16 tape) as [[salt t1]|] eqn:E1; [|discriminate Hw].
        destruct (take 16 t1) as [[rnd t2]|] eqn:E2; [|discriminate Hw].
        injection Hw as <- _ _. apply agf_take_spec in E1. destruct E1 as [_ L1].
        constructor; [|constructor]. unfold wf_stanza. cbn [st_type st_args forallb].
        rewrite b64_enc_raw_valid by (apply (agf_length_nonnil _ 15); exact L1).
        rewrite dec_of_N_valid. reflexivity.
      - apply wrap_like_inv in Hw. destruct Hw as (eph & our & ss & Ht & Ho & Hs & _ & ->).
        constructor; [|constructor]. unfold wf_stanza. cbn [st_type st_args app forallb].
        rewrite Htag by exact Hsha.
        rewrite b64_enc_raw_valid by (apply (agf_length_nonnil _ 31); exact (HL _ _ _ Ho)).
        reflexivity.
      - destruct (take 32 tape) as [[coins t1]|] eqn:E1; [|discriminate Hw].
        injection Hw as <- _ _.
        constructor; [|constructor]. unfold wf_stanza. cbn [st_type st_args forallb].
        rewrite Htag by exact Hsha. reflexivity.
    Qed.

    Lemma header_opens :
      forall (rs : list recipient) (tape : bytes) (pl : enc_plan) (k : nat) (r : recipient)
             (i : identity) (results : list (list stanza * list bytes)) (fk_tape tape' : bytes),
        plan_encrypt P rs tape = Ok pl ->
        take file_key_size tape = Some (ep_file_key pl, fk_tape) ->
        wrap_each P rs (ep_file_key pl) fk_tape = Ok (results, tape') ->
        nth_error rs k = Some r -> matches P i r ->
        (match i with IScrypt _ _ => length (ep_stanzas pl) = 1%nat | _ => True end) ->
        Forall (fun s => fst (unwrap_one P i s) = Err EIncorrect)
               (concat (map fst (firstn k results))) ->
        ep_stanzas pl = concat (map fst results) /\
        fst (unwrap P i (ep_stanzas pl)) = Ok (ep_file_key pl).
    Proof.
      intros rs tape pl k r i results fk_tape tape' Hp Ht He Hk Hm Hi Hb.
      apply plan_encrypt_inv in Hp.
      destruct Hp as (_ & fk & t1 & ss & t2 & nonce & t3 & Hk' & Hw & Hn & ->).
      cbn [ep_file_key ep_stanzas] in *.
      rewrite Hk' in Ht. injection Ht as <-.
      apply wrap_all_each in Hw. destruct Hw as (res0 & He0 & Hs).
      rewrite He0 in He. injection He as <- <-. cbn [app] in Hs. subst ss.
      split; [reflexivity|].
      destruct (wrap_each_nth _ _ _ _ _ _ _ He0 Hk) as (tk & st & l & tk' & Hwk & Hnth).
      assert (Lfk : length fk = 16) by exact (proj2 (agf_take_spec _ _ _ _ Hk')).
      destruct (own_stanza_opens i r fk tk tk' st l Hm Lfk Hwk) as [Hne Hall].
      rewrite unwrap_multi.
      2:{ destruct i; try exact I; [exact Hi|destruct r; exact Hm]. }
      rewrite (agf_split_nth _ _ _ _ Hnth), map_app, concat_app.
      cbn [map concat fst]. rewrite mu_skip_app by exact Hb.
      destruct st as [|s0 st0]; [contradiction|]. cbn [app].
      pose proof (Forall_inv Hall) as Hs0. cbn beta in Hs0.
      rewrite mu_hit; [exact Hs0|]. rewrite Hs0. discriminate.
    Qed.

    (** Guarded by [HM]: the MAC line only parses back if the MAC has 32 bytes;
        see [decrypt_roundtrip_refuted]. *)
    Lemma decrypt_roundtrip :
      forall (cs : nat) (rs : list recipient) (tape p : bytes) (pl : enc_plan)
             (pre post : list identity) (i : identity),
        (forall k m, length (hmac P k m) = 32%nat) ->
        (0 < cs)%nat ->
        plan_encrypt P rs tape = Ok pl ->
        Forall (fun s => wf_stanza s = true) (ep_stanzas pl) ->
        Forall (fun j => fst (unwrap P j (ep_stanzas pl)) = Err EIncorrect) pre ->
        fst (unwrap P i (ep_stanzas pl)) = Ok (ep_file_key pl) ->
        (N.of_nat (length p) < ctr_limit)%N ->
        exists o w,
          decrypt_open P (pre ++ i :: post) (file_bytes P cs pl p)
            = (Ok o, S (length pre), length pre, w) /\
          do_file_key o = ep_file_key pl /\
          do_key o = stream_key P (ep_file_key pl) (ep_nonce pl) /\
          do_payload o = encrypt_spec cs (aead_seal P (do_key o)) p /\
          (let '(released, oc, attempts) := decrypt_spec cs (aead_open P (do_key o)) (do_payload o) in
           no_forgery (enc_chunks cs (aead_seal P (do_key o)) 0 p) attempts ->
           released = p /\ oc = CleanEOF).
    Proof.
      intros cs rs tape p pl pre post i HM Hcs Hp Hwf Hpre Hi Hlim.
      apply plan_encrypt_inv in Hp.
      destruct Hp as (_ & fk & t1 & ss & t2 & nonce & t3 & Hk & _ & Hn & ->).
      cbn [ep_file_key ep_stanzas ep_nonce] in *.
      apply agf_take_spec in Hk. destruct Hk as [_ Lk].
      apply agf_take_spec in Hn. destruct Hn as [_ Ln].
      assert (Hwfh : wf_header (mkHeader ss (header_mac P fk ss)) = true).
      { apply wf_header_spec. cbn [h_stanzas h_mac]. split.
        - apply forallb_forall. exact (proj1 (Forall_forall _ _) Hwf).
        - unfold header_mac. apply HM. }
      assert (Hfk : fk <> []) by (apply (agf_length_nonnil _ 15); exact Lk).
      destruct (identity_loop_pre pre i post ss fk 0 0 [] Hpre Hi Hfk) as [w' Hloop].
      rewrite !Nat.add_0_r in Hloop.
      exists (mkDecOpen (stream_key P fk nonce)
                        (encrypt_spec cs (aead_seal P (stream_key P fk nonce)) p)
                        fk (S (length pre))), w'.
      split.
      - unfold file_bytes. cbn [ep_header ep_nonce ep_file_key].
        rewrite (decrypt_open_Ok_intro (pre ++ i :: post) _
                   (mkHeader ss (header_mac P fk ss))
                   (nonce ++ encrypt_spec cs (aead_seal P (stream_key P fk nonce)) p)
                   fk (S (length pre)) (length pre) w').
        + rewrite (firstn_app_exact _ nonce _ stream_nonce_size Ln),
                  (skipn_app_exact _ nonce _ stream_nonce_size Ln). reflexivity.
        + destruct pre; discriminate.
        + apply marshal_parse. exact Hwfh.
        + exact Hloop.
        + reflexivity.
        + rewrite app_length, Ln. lia.
      - split; [reflexivity|]. split; [reflexivity|]. split; [reflexivity|].
        cbn [do_key do_payload]. destruct HA as [Ho Hl].
        exact (stream_roundtrip cs Hcs (aead_seal P (stream_key P fk nonce))
                 (aead_open P (stream_key P fk nonce))
                 (Ho (stream_key P fk nonce)) (Hl (stream_key P fk nonce)) p Hlim).
    Qed.
  End Crypto.

End AgeFacts.

Lemma altered_bytes_altered_header :
  forall (h : header) (rest file' : bytes) (h' : header) (rest' : bytes),
    wf_header h = true ->
    parse file' = Ok (h', rest') ->
    file' <> marshal h ++ rest ->
    h' <> h \/ rest' <> rest.
Proof.
  intros h rest file' h' rest' _ Hp Hne.
  apply parse_marshal in Hp.
  destruct (list_eq_dec Byte.byte_eq_dec rest' rest) as [->|Hr]; [left|right; exact Hr].
  intros ->. apply Hne. symmetry. exact Hp.
Qed.

(** * Refuted unguarded statements (PROOF_GUIDE procedure) *)

(** [native_stanzas_wf] without its guard on [sha256]: with a hash function
    returning the empty string the SSH tag argument is empty, which is not a
    valid stanza argument.  (SHA-256 always returns 32 bytes; the guard is a
    length fact about the primitive, not about age.) *)
Lemma native_stanzas_wf_refuted :
  exists P : Prims, DhLen P /\
    exists (r : recipient) (fk tape tape' : bytes) st l,
      (match r with RStub _ _ _ => False | _ => True end) /\
      wrap P r fk tape = Ok (st, l, tape') /\
      ~ Forall (fun s => wf_stanza s = true) st.
Proof.
  exists (mkPrims (fun _ _ p => p) (fun _ _ c => Some c) (fun _ _ _ => []) (fun _ _ => [])
                  (fun _ => []) (fun _ _ => None) (fun _ _ _ => [])
                  (fun _ _ m _ => m) (fun _ _ c => Some c)).
  split; [intros a p s H; discriminate H|].
  exists (RSshRsa []), [], (repeat x00 32), [], [mkStanza ty_ssh_rsa [[]] []], [].
  split; [exact I|]. split; [reflexivity|].
  intros H. apply Forall_inv in H. vm_compute in H. discriminate H.
Qed.

(** [decrypt_roundtrip] without [HM]: if [hmac] does not return 32 bytes the
    footer line written by Encrypt is rejected by Parse ([Err EHeader]), for
    primitives satisfying every other hypothesis of C01h. *)
Lemma decrypt_roundtrip_refuted :
  exists P : Prims, AeadCorrect P /\ DhAgree P /\ DhLen P /\ RsaCorrect P /\
    exists (cs : nat) (rs : list recipient) (tape p : bytes) (pl : enc_plan)
           (pre post : list identity) (i : identity),
      (0 < cs)%nat /\
      plan_encrypt P rs tape = Ok pl /\
      Forall (fun s => wf_stanza s = true) (ep_stanzas pl) /\
      Forall (fun j => fst (unwrap P j (ep_stanzas pl)) = Err EIncorrect) pre /\
      fst (unwrap P i (ep_stanzas pl)) = Ok (ep_file_key pl) /\
      (N.of_nat (length p) < ctr_limit)%N /\
      ~ exists o w, decrypt_open P (pre ++ i :: post) (file_bytes P cs pl p)
                    = (Ok o, S (length pre), length pre, w).
Proof.
  exists (mkPrims (fun _ _ p => p ++ repeat x00 16)
                  (fun _ _ c => Some (firstn (length c - 16) c))
                  (fun _ _ _ => []) (fun _ _ => [])
                  (fun _ => []) (fun _ _ => None) (fun _ _ _ => [])
                  (fun _ _ m _ => m) (fun _ _ c => Some c)).
  split.
  { split; intros k n p; cbn [aead_open aead_seal].
    - rewrite app_length, repeat_length, Nat.add_sub.
      rewrite (firstn_app_exact _ p _ (length p) eq_refl). reflexivity.
    - rewrite app_length, repeat_length. reflexivity. }
  split; [intros a b pa pb H; discriminate H|].
  split; [intros a p s H; discriminate H|].
  split; [intros key label m coins; reflexivity|].
  exists 1, [RStub [mkStanza [x58] [] []] None false], (repeat x00 32), [],
         (mkPlan (repeat x00 16) [mkStanza [x58] [] []]
                 (mkHeader [mkStanza [x58] [] []] []) (repeat x00 16) []),
         [], [], (IStub (Ok (repeat x00 16))).
  split; [lia|]. split; [reflexivity|].
  split; [constructor; [reflexivity|constructor]|].
  split; [constructor|]. split; [reflexivity|]. split; [reflexivity|].
  intros (o & w & H). vm_compute in H. discriminate H.
Qed.
