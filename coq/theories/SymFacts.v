(** SymFacts.v — the toy instance [SymP] of Sym.v satisfies every
    functional-correctness hypothesis the conditional theorems take about the
    primitives (so those theorems are not vacuous), and computed end-to-end
    examples of Encrypt/Decrypt over [SymP].  Lemmas only. *)

From Coq Require Import ZifyN ZifyNat ZifyBool.
From Age Require Import Base Base64 Format FormatIO IO Stream Armor Prims Recipients Age Sym.
From Age Require Import Base64Facts StreamFacts AgeFacts.
Local Open Scope N_scope.

(** * The digest *)

Lemma sym_h32_len : forall m, length (h32 m) = 32%nat.
Proof. intros m. unfold h32. apply length_be_bytes. Qed.

Lemma sym_sha256_len : forall m, length (sha256 SymP m) = 32%nat.
Proof. intros m. apply sym_h32_len. Qed.

Lemma sym_hmac_len : forall k m, length (hmac SymP k m) = 32%nat.
Proof. intros k m. apply sym_h32_len. Qed.

Lemma sym_hkdf_len : forall i s f, length (hkdf32 SymP i s f) = 32%nat.
Proof. intros i s f. apply sym_h32_len. Qed.

Lemma sym_scrypt_len : forall pw salt n, length (scrypt SymP pw salt n) = 32%nat.
Proof. intros pw salt n. apply sym_h32_len. Qed.

(** * The AEAD *)

Lemma sym_tag_len : forall k n p, length (sym_tag k n p) = 16%nat.
Proof.
  intros k n p. unfold sym_tag. rewrite firstn_length, sym_h32_len. reflexivity.
Qed.

Lemma sym_firstn_len_app : forall (p t : bytes), firstn (length p) (p ++ t) = p.
Proof.
  induction p as [|x p IH]; intros t; cbn [length firstn app]; [reflexivity|].
  rewrite IH. reflexivity.
Qed.

Lemma sym_skipn_len_app : forall (p t : bytes), skipn (length p) (p ++ t) = t.
Proof.
  induction p as [|x p IH]; intros t; cbn [length skipn app]; [reflexivity|].
  apply IH.
Qed.

Lemma sym_open_seal : forall k n p, sym_open k n (sym_seal k n p) = Some p.
Proof.
  intros k n p. unfold sym_open, sym_seal.
  rewrite app_length, sym_tag_len.
  replace (length p + 16 - 16)%nat with (length p) by lia.
  destruct (Nat.ltb (length p + 16) 16) eqn:E.
  - apply Nat.ltb_lt in E. lia.
  - rewrite sym_firstn_len_app, sym_skipn_len_app, bytes_eqb_refl. reflexivity.
Qed.

Lemma sym_seal_len : forall k n p, length (sym_seal k n p) = (length p + 16)%nat.
Proof. intros k n p. unfold sym_seal. rewrite app_length, sym_tag_len. reflexivity. Qed.

Lemma sym_aead_correct : AeadCorrect SymP.
Proof. split; [exact sym_open_seal | exact sym_seal_len]. Qed.

Lemma sym_aead_len : AeadLen SymP.
Proof.
  intros k n c p H. cbn [aead_open SymP] in H. unfold sym_open in H.
  destruct (Nat.ltb (length c) 16) eqn:E; [discriminate|].
  apply Nat.ltb_ge in E.
  destruct (bytes_eqb _ _); [|discriminate].
  injection H as <-. rewrite firstn_length. lia.
Qed.

(** * Diffie-Hellman *)

Lemma sym_dh_q_pos : dh_q <> 0.
Proof. discriminate. Qed.

Lemma sym_dh_q_lt : dh_q < 256 ^ N.of_nat 32.
Proof. vm_compute. reflexivity. Qed.

Lemma sym_be_val_snoc : forall l x, be_val (l ++ [x]) = be_val l * 256 + b2n x.
Proof. intros l x. unfold be_val. rewrite fold_left_app. reflexivity. Qed.

Lemma sym_be_val_be_bytes : forall n v, be_val (be_bytes n v) = v mod 256 ^ N.of_nat n.
Proof.
  induction n as [|k IH]; intros v.
  - cbn [be_bytes]. change (256 ^ N.of_nat 0) with 1. rewrite N.mod_1_r. reflexivity.
  - cbn [be_bytes]. rewrite sym_be_val_snoc, IH.
    rewrite StreamFacts.b2n_n2b by (apply N.mod_lt; discriminate).
    rewrite Nat2N.inj_succ, N.pow_succ_r'.
    rewrite N.mod_mul_r by (try discriminate; apply N.pow_nonzero; discriminate).
    lia.
Qed.

Lemma sym_dh_val_encode32 : forall v, v < dh_q -> dh_val (encode32 v) = v.
Proof.
  intros v Hv. unfold dh_val, encode32. rewrite sym_be_val_be_bytes.
  pose proof sym_dh_q_lt as Hq.
  rewrite (N.mod_small v (256 ^ N.of_nat 32)) by lia.
  apply N.mod_small. exact Hv.
Qed.

Lemma sym_x25519_eq : forall s p,
  x25519 SymP s p = Some (encode32 ((dh_val s * dh_val p) mod dh_q)).
Proof. reflexivity. Qed.

Lemma sym_dh_agree : DhAgree SymP.
Proof.
  intros a b pa pb Ha Hb. rewrite sym_x25519_eq in Ha, Hb.
  injection Ha as <-. injection Hb as <-.
  rewrite !sym_x25519_eq. eexists. split; [reflexivity|].
  rewrite !sym_dh_val_encode32 by (apply N.mod_lt; exact sym_dh_q_pos).
  rewrite !N.mul_mod_idemp_r by exact sym_dh_q_pos.
  do 3 f_equal. ring.
Qed.

Lemma sym_dh_len : DhLen SymP.
Proof.
  intros a p s H. rewrite sym_x25519_eq in H. injection H as <-.
  unfold encode32. apply length_be_bytes.
Qed.

(** * RSA *)

Lemma sym_rsa_correct : RsaCorrect SymP.
Proof. intros key label m coins. reflexivity. Qed.

(** * All the hypotheses together *)

Lemma sym_hypotheses :
  AeadCorrect SymP /\ AeadLen SymP /\ DhAgree SymP /\ DhLen SymP /\ RsaCorrect SymP /\
  (forall k m, length (hmac SymP k m) = 32%nat) /\
  (forall m, length (sha256 SymP m) = 32%nat).
Proof.
  repeat split;
    first [ exact sym_open_seal | exact sym_seal_len | exact sym_aead_len | exact sym_dh_agree
          | exact sym_dh_len | exact sym_rsa_correct | exact sym_hmac_len | exact sym_sha256_len ].
Qed.

(** The side premise of C01_native_stanzas_wf. *)
Lemma sym_sha256_nonempty : forall blob, sha256 SymP blob <> [].
Proof.
  intros blob E. pose proof (sym_sha256_len blob) as H. rewrite E in H. discriminate.
Qed.

(** The conditional theorems apply to [SymP]: e.g. the header-layer theorem
    AgeFacts.own_stanza_opens (C01_own_stanza_opens). *)
Lemma sym_own_stanza_opens :
  forall (i : identity) (r : recipient) (fk tape tape' : bytes) st l,
    matches SymP i r -> length fk = 16%nat ->
    wrap SymP r fk tape = Ok (st, l, tape') ->
    st <> [] /\ Forall (fun s => fst (unwrap_one SymP i s) = Ok fk) st.
Proof.
  exact (own_stanza_opens SymP sym_aead_correct sym_dh_agree sym_dh_len sym_rsa_correct).
Qed.

(** * Computed examples (chunk size 4, 10-byte plaintext: chunks of 4, 4, 2) *)

(** Exhibit the plan [plan_encrypt] computes. *)
Ltac sym_plan :=
  match goal with
  | |- exists pl, plan_encrypt ?P ?rs ?tape = Ok pl /\ _ =>
      let v := eval vm_compute in (plan_encrypt P rs tape) in
      match v with
      | Ok ?pl => exists pl
      end
  end.

Ltac sym_compute := vm_compute; reflexivity.

Lemma sym_matches : matches SymP (IX25519 ex_secret ex_pub) (RX25519 ex_pub).
Proof.
  unfold matches. split; [reflexivity|]. vm_compute. reflexivity.
Qed.

Lemma sym_matches_ssh_ed :
  matches SymP (ISshEd ex_ed_blob ex_ed_secret ex_ed_mont) (RSshEd ex_ed_blob ex_ed_mont).
Proof.
  unfold matches. split; [reflexivity|]. split; [reflexivity|]. vm_compute. reflexivity.
Qed.

Lemma sym_roundtrip_x25519 :
  exists pl,
    plan_encrypt SymP [RX25519 ex_pub] ex_tape = Ok pl /\
    decrypt_bytes SymP ex_cs [IX25519 ex_secret ex_pub] (file_bytes SymP ex_cs pl ex_plain)
      = Ok (ex_plain, CleanEOF).
Proof. sym_plan. split; sym_compute. Qed.

Lemma sym_roundtrip_scrypt :
  exists pl,
    plan_encrypt SymP [RScrypt ex_pass 3] ex_tape = Ok pl /\
    decrypt_bytes SymP ex_cs [IScrypt ex_pass 10] (file_bytes SymP ex_cs pl ex_plain)
      = Ok (ex_plain, CleanEOF).
Proof. sym_plan. split; sym_compute. Qed.

Lemma sym_roundtrip_ssh_ed :
  exists pl,
    plan_encrypt SymP [RSshEd ex_ed_blob ex_ed_mont] ex_tape = Ok pl /\
    decrypt_bytes SymP ex_cs [ISshEd ex_ed_blob ex_ed_secret ex_ed_mont]
                  (file_bytes SymP ex_cs pl ex_plain)
      = Ok (ex_plain, CleanEOF).
Proof. sym_plan. split; sym_compute. Qed.

Lemma sym_roundtrip_ssh_rsa :
  exists pl,
    plan_encrypt SymP [RSshRsa ex_rsa_blob] ex_tape = Ok pl /\
    decrypt_bytes SymP ex_cs [ISshRsa ex_rsa_blob] (file_bytes SymP ex_cs pl ex_plain)
      = Ok (ex_plain, CleanEOF).
Proof. sym_plan. split; sym_compute. Qed.

(** Three recipients (X25519, a stanza of unknown type, ssh-rsa); the first
    identity is an unrelated X25519 key (answers "incorrect identity"), the
    second opens the file: 2 identities consulted, 1 error collected, three
    stanzas in the header, exact plaintext and a clean end of stream. *)
Lemma sym_roundtrip_mixed :
  exists pl,
    plan_encrypt SymP ex_mixed_rs ex_tape = Ok pl /\
    length (ep_stanzas pl) = 3%nat /\
    (exists o,
       decrypt_open SymP ex_mixed_ids (file_bytes SymP ex_cs pl ex_plain)
         = (Ok o, 2%nat, 1%nat, []) /\
       do_file_key o = ep_file_key pl /\ do_consulted o = 2%nat) /\
    decrypt_bytes SymP ex_cs ex_mixed_ids (file_bytes SymP ex_cs pl ex_plain)
      = Ok (ex_plain, CleanEOF).
Proof.
  sym_plan. split; [sym_compute|]. split; [sym_compute|]. split; [|sym_compute].
  match goal with
  | |- exists o, decrypt_open ?P ?ids ?f = _ /\ _ =>
      let v := eval vm_compute in (decrypt_open P ids f) in
      match v with
      | (Ok ?o, _, _, _) => exists o
      end
  end.
  split; [sym_compute|]. split; sym_compute.
Qed.

(** Each identity alone: the owner of the first stanza and the owner of the
    last one both decrypt the mixed file. *)
Lemma sym_roundtrip_mixed_each :
  exists pl,
    plan_encrypt SymP ex_mixed_rs ex_tape = Ok pl /\
    decrypt_bytes SymP ex_cs [IX25519 ex_secret ex_pub] (file_bytes SymP ex_cs pl ex_plain)
      = Ok (ex_plain, CleanEOF) /\
    decrypt_bytes SymP ex_cs [ISshRsa ex_rsa_blob] (file_bytes SymP ex_cs pl ex_plain)
      = Ok (ex_plain, CleanEOF).
Proof. sym_plan. split; [sym_compute|]. split; sym_compute. Qed.

(** The payload is 58 bytes: sealed chunks of 20, 20 and 18 bytes.  Changing
    the second byte of the second chunk: the first chunk ("hell") is released,
    then the stream fails to authenticate. *)
Lemma sym_tamper :
  exists pl,
    plan_encrypt SymP [RX25519 ex_pub] ex_tape = Ok pl /\
    let f := file_bytes SymP ex_cs pl ex_plain in
    flip_at (length f - 37) f <> f /\
    length (flip_at (length f - 37) f) = length f /\
    decrypt_bytes SymP ex_cs [IX25519 ex_secret ex_pub] (flip_at (length f - 37) f)
      = Ok (firstn 4 ex_plain, Failed EPayload).
Proof.
  sym_plan. split; [sym_compute|]. cbv zeta. split; [|split; sym_compute].
  apply bytes_eqb_neq. sym_compute.
Qed.

(** Changing the very last byte of the file (the tag of the final chunk): the
    two full chunks are released, the final one is not. *)
Lemma sym_tamper_last :
  exists pl,
    plan_encrypt SymP [RX25519 ex_pub] ex_tape = Ok pl /\
    let f := file_bytes SymP ex_cs pl ex_plain in
    decrypt_bytes SymP ex_cs [IX25519 ex_secret ex_pub] (flip_at (length f - 1) f)
      = Ok (firstn 8 ex_plain, Failed EPayload).
Proof. sym_plan. split; sym_compute. Qed.

(** An unrelated X25519 identity: no identity matches. *)
Lemma sym_wrong_key :
  exists pl,
    plan_encrypt SymP [RX25519 ex_pub] ex_tape = Ok pl /\
    decrypt_bytes SymP ex_cs [IX25519 ex_other_secret ex_other_pub]
                  (file_bytes SymP ex_cs pl ex_plain)
      = Err ENoMatch.
Proof. sym_plan. split; sym_compute. Qed.
