(** Conc.v — a small model of goroutines sharing a value, for C20.

    Threads are sequences of atomic memory actions.  Locations are either
    shared (fields of the shared recipient / identity value, package-level
    variables) or owned by one thread (its locals, the buffers it allocated).
    Executions are arbitrary interleavings (a schedule = a list of thread
    ids).  What a thread observes is the list of values it read. *)

From Coq Require Import List Arith Bool Lia.
Import ListNotations.

Definition loc := nat.
Definition val := nat.
Definition tid := nat.

Inductive act :=
| Rd (l : loc)
| Wr (l : loc) (v : val).

Definition thread := list act.
Definition mem := loc -> val.

Definition upd (m : mem) (l : loc) (v : val) : mem :=
  fun x => if Nat.eqb x l then v else m x.

(** owner l = None: shared; Some t: private to thread t. *)
Definition ownership := loc -> option tid.

Definition act_loc (a : act) : loc := match a with Rd l => l | Wr l _ => l end.
Definition is_write (a : act) : bool := match a with Wr _ _ => true | Rd _ => false end.

(** A thread alone, from memory m: the values it reads. *)
Fixpoint run_solo (m : mem) (t : thread) : list val :=
  match t with
  | [] => []
  | Rd l :: rest => m l :: run_solo m rest
  | Wr l v :: rest => run_solo (upd m l v) rest
  end.

(** The system: each thread's remaining program and what it has read so far. *)
Record sys := mkSys {
  s_mem   : mem;
  s_progs : tid -> thread;
  s_obs   : tid -> list val
}.

Definition set_fun {A} (f : tid -> A) (t : tid) (x : A) : tid -> A :=
  fun u => if Nat.eqb u t then x else f u.

(** One step of thread t (a no-op if it has finished). *)
Definition step (s : sys) (t : tid) : sys :=
  match s_progs s t with
  | [] => s
  | Rd l :: rest =>
      mkSys (s_mem s) (set_fun (s_progs s) t rest) (set_fun (s_obs s) t (s_obs s t ++ [s_mem s l]))
  | Wr l v :: rest =>
      mkSys (upd (s_mem s) l v) (set_fun (s_progs s) t rest) (s_obs s)
  end.

Definition run_sched (s : sys) (sched : list tid) : sys := fold_left step sched s.

Definition init_sys (m : mem) (progs : tid -> thread) : sys := mkSys m progs (fun _ => []).

(** A schedule is complete if every thread has run to the end. *)
Definition finished (s : sys) : Prop := forall t, s_progs s t = [].

(** Discipline: a thread touches only shared locations and its own private
    ones, and never WRITES a shared location. *)
Definition well_behaved (own : ownership) (progs : tid -> thread) : Prop :=
  forall t a, In a (progs t) ->
    match own (act_loc a) with
    | None => is_write a = false
    | Some u => u = t
    end.

(** Two accesses conflict if they are by different threads, to the same
    location, and at least one is a write: with no synchronisation in the
    model, every conflict is a data race. *)
Definition conflict (progs : tid -> thread) : Prop :=
  exists t u a b, t <> u /\ In a (progs t) /\ In b (progs u) /\
                  act_loc a = act_loc b /\ (is_write a = true \/ is_write b = true).
