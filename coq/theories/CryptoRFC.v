(** CryptoRFC.v — vectors taken from the RFCs themselves (not produced by any
    library): RFC 8439 section 2.3.2 (ChaCha20 block function), 2.5.2
    (Poly1305), 2.4.2 first block of the key stream via the cipher; FIPS 180-4
    two-block message; RFC 7914 section 8 (Salsa20/8 core is exercised through
    scrypt in CryptoVectors.v). *)
From Age Require Import Base Prims Crypto CryptoVectors.

Example rfc8439_2_3_2_chacha20_block :
  chacha_block (hx "000102030405060708090a0b0c0d0e0f101112131415161718191a1b1c1d1e1f")
               (hx "000000090000004a00000000") 1
  = hx "10f1e7e4d13b5915500fdd1fa32071c4c7d1f4c733c068030422aa9ac3d46c4ed2826446079faa0914c2d705d98b02a2b5129cd1de164eb9cbd083e8a2503c4e".
Proof. vm_compute. reflexivity. Qed.

Example rfc8439_2_5_2_poly1305 :
  poly1305 (hx "85d6be7857556d337f4452fe42d506a80103808afb0db2fd4abff6af4149f51b")
           (bs "Cryptographic Forum Research Group")
  = hx "a8061dc1305136c6c22b8baf0c0127a9".
Proof. vm_compute. reflexivity. Qed.

Example fips180_two_block :
  sha256_bytes (bs "abcdbcdecdefdefgefghfghighijhijkijkljklmklmnlmnomnopnopq")
  = hx "248d6a61d20638b8e5c026930c3e6039a33ce45964ff2167f6ecedd419db06c1".
Proof. vm_compute. reflexivity. Qed.

Example rfc7914_11_pbkdf2_c1 :
  pbkdf2_1 (bs "passwd") (bs "salt") 64
  = hx "55ac046e56e3089fec1691c22544b605f94185216dde0465e68b9d57c20dacbc49ca9cccf179b645991664b39d77ef317c71b845b1e30bd509112041d3a19783".
Proof. vm_compute. reflexivity. Qed.
