(** StreamFacts.v — proofs about the byte-string layer of Stream.v
    ([enc_chunks] / [encrypt_spec] / [dec_fuel] / [decrypt_spec] / [nonce_of] /
    [no_forgery]).  Lemmas only.  The state machines are in StreamMachine.v. *)

From Age Require Import Base IO Stream.
From Coq Require Import ZifyN ZifyNat ZifyBool.
Local Open Scope nat_scope.

#[local] Arguments ctr_limit : simpl never.
Local Opaque ctr_limit.

(** * Lists *)

Lemma firstn_app_exact : forall (A : Type) (a b : list A) n,
  length a = n -> firstn n (a ++ b) = a.
Proof.
  intros A a b n Hn. subst n. rewrite firstn_app, Nat.sub_diag, firstn_all.
  cbn [firstn]. apply app_nil_r.
Qed.

Lemma skipn_app_exact : forall (A : Type) (a b : list A) n,
  length a = n -> skipn n (a ++ b) = b.
Proof.
  intros A a b n Hn. subst n. rewrite skipn_app, Nat.sub_diag, skipn_all.
  reflexivity.
Qed.

Lemma skipn_skipn_add : forall (A : Type) a b (l : list A),
  skipn a (skipn b l) = skipn (b + a) l.
Proof.
  intros A a b. induction b as [|b IH]; intros l; [reflexivity|].
  destruct l as [|x l]; cbn [skipn Nat.add]; [apply skipn_nil|apply IH].
Qed.

Lemma is_prefix_app_same : forall a q r : bytes,
  is_prefix (a ++ q) (a ++ r) = is_prefix q r.
Proof.
  induction a as [|x a IH]; intros q r; cbn [app is_prefix]; [reflexivity|].
  rewrite (@Byte.byte_dec_lb x x eq_refl). cbn [andb]. apply IH.
Qed.

Lemma is_prefix_nil : forall l : bytes, is_prefix [] l = true.
Proof. intros l. reflexivity. Qed.

Lemma is_prefix_refl : forall l : bytes, is_prefix l l = true.
Proof.
  intros l. rewrite <- (app_nil_r l) at 1. rewrite <- (app_nil_r l) at 2.
  rewrite is_prefix_app_same. reflexivity.
Qed.

Lemma is_prefix_firstn : forall n (l : bytes), is_prefix (firstn n l) l = true.
Proof.
  intros n l. rewrite <- (firstn_skipn n l) at 2.
  rewrite <- (app_nil_r (firstn n l)) at 1.
  rewrite is_prefix_app_same. reflexivity.
Qed.

Lemma is_prefix_firstn_app : forall n (p q : bytes),
  is_prefix q (skipn n p) = true -> is_prefix (firstn n p ++ q) p = true.
Proof.
  intros n p q Hq. rewrite <- (firstn_skipn n p) at 2.
  rewrite is_prefix_app_same. exact Hq.
Qed.

(** * Bytes and the big-endian counter *)

Lemma b2n_n2b : forall x : N, (x < 256)%N -> b2n (n2b x) = x.
Proof.
  intros x Hx. unfold b2n, n2b. rewrite N.mod_small by exact Hx.
  destruct (Byte.of_N x) as [b|] eqn:E.
  - apply Byte.to_of_N. exact E.
  - apply Byte.of_N_None_iff in E. lia.
Qed.

Lemma n2b_inj : forall x y : N, (x < 256)%N -> (y < 256)%N -> n2b x = n2b y -> x = y.
Proof.
  intros x y Hx Hy E. rewrite <- (b2n_n2b x Hx), <- (b2n_n2b y Hy), E. reflexivity.
Qed.

Lemma length_be_bytes : forall n v, length (be_bytes n v) = n.
Proof.
  induction n as [|k IH]; intros v; cbn [be_bytes]; [reflexivity|].
  rewrite app_length, IH. cbn [length]. lia.
Qed.

Lemma be_bytes_inj : forall n v w,
  (v < 256 ^ N.of_nat n)%N -> (w < 256 ^ N.of_nat n)%N ->
  be_bytes n v = be_bytes n w -> v = w.
Proof.
  induction n as [|k IH]; intros v w Hv Hw E.
  - change (256 ^ N.of_nat 0)%N with 1%N in Hv, Hw. lia.
  - cbn [be_bytes] in E. apply app_inj_tail in E. destruct E as [E1 E2].
    replace (N.of_nat (S k)) with (N.succ (N.of_nat k)) in Hv, Hw by lia.
    rewrite N.pow_succ_r' in Hv, Hw.
    assert (Hq : (v / 256 = w / 256)%N).
    { apply IH; [apply N.div_lt_upper_bound; lia | apply N.div_lt_upper_bound; lia | exact E1]. }
    assert (Hr : (v mod 256 = w mod 256)%N).
    { apply n2b_inj; [apply N.mod_lt; lia | apply N.mod_lt; lia | exact E2]. }
    rewrite (N.div_mod' v 256), (N.div_mod' w 256), Hq, Hr. reflexivity.
Qed.

Lemma ctr_limit_eq : ctr_limit = (256 ^ N.of_nat 11)%N.
Proof. Local Transparent ctr_limit. vm_compute. reflexivity. Qed.
Local Opaque ctr_limit.

Lemma ctr_limit_pos : (0 < ctr_limit)%N.
Proof. rewrite ctr_limit_eq. vm_compute. reflexivity. Qed.

Lemma length_nonce_of : forall c l, length (nonce_of c l) = 12.
Proof.
  intros c l. unfold nonce_of. rewrite app_length, length_be_bytes. reflexivity.
Qed.

Lemma nonce_of_inj :
  forall (c1 c2 : N) (l1 l2 : bool),
    (c1 < ctr_limit)%N -> (c2 < ctr_limit)%N ->
    nonce_of c1 l1 = nonce_of c2 l2 -> c1 = c2 /\ l1 = l2.
Proof.
  intros c1 c2 l1 l2 H1 H2 E. unfold nonce_of in E.
  apply app_inj_tail in E. destruct E as [Ec El]. split.
  - rewrite ctr_limit_eq in H1, H2. exact (be_bytes_inj 11 c1 c2 H1 H2 Ec).
  - destruct l1, l2; try reflexivity; discriminate El.
Qed.

(** * The writer-side format: [enc_chunks] *)

Section Enc.
  Variable cs : nat.
  Hypothesis cs_pos : 0 < cs.

  (** Induction along the chunking of [p]. *)
  Lemma enc_chunks_ind : forall (P : N -> bytes -> Prop),
    (forall ctr p, length p <= cs -> P ctr p) ->
    (forall ctr p, cs < length p -> P (ctr + 1)%N (skipn cs p) -> P ctr p) ->
    forall ctr p, P ctr p.
  Proof using cs_pos.
    intros P Hb Hs ctr p. remember (length p) as n eqn:En. revert ctr p En.
    induction n as [n IH] using lt_wf_ind. intros ctr p En.
    destruct (le_lt_dec (length p) cs) as [Hle|Hlt].
    - apply Hb. exact Hle.
    - apply Hs; [exact Hlt|]. apply (IH (length (skipn cs p))); [|reflexivity].
      rewrite skipn_length. lia.
  Qed.

  Variable seal : bytes -> bytes -> bytes.

  Lemma enc_chunks_fuel_indep : forall f1 f2 ctr p,
    length p <= f1 -> length p <= f2 ->
    enc_chunks_fuel cs seal f1 ctr p = enc_chunks_fuel cs seal f2 ctr p.
  Proof using cs_pos.
    induction f1 as [|f1 IH]; intros f2 ctr p H1 H2.
    - destruct f2 as [|f2]; [reflexivity|]. cbn [enc_chunks_fuel].
      destruct (Nat.leb (length p) cs) eqn:E; [reflexivity|].
      apply Nat.leb_gt in E. lia.
    - destruct f2 as [|f2]; cbn [enc_chunks_fuel];
        destruct (Nat.leb (length p) cs) eqn:E; try reflexivity.
      + apply Nat.leb_gt in E. lia.
      + apply Nat.leb_gt in E. f_equal. apply IH; rewrite skipn_length; lia.
  Qed.

  Lemma enc_chunks_last : forall ctr p,
    length p <= cs ->
    enc_chunks cs seal ctr p = [(ctr, true, seal (nonce_of ctr true) p)].
  Proof.
    intros ctr p Hp. unfold enc_chunks. destruct (length p) eqn:El; cbn [enc_chunks_fuel].
    - reflexivity.
    - rewrite El. apply Nat.leb_le in Hp. rewrite Hp. reflexivity.
  Qed.

  Lemma enc_chunks_cons : forall ctr p,
    cs < length p ->
    enc_chunks cs seal ctr p
    = (ctr, false, seal (nonce_of ctr false) (firstn cs p))
        :: enc_chunks cs seal (ctr + 1) (skipn cs p).
  Proof using cs_pos.
    intros ctr p Hp. unfold enc_chunks. destruct (length p) as [|n] eqn:El; [lia|].
    cbn [enc_chunks_fuel]. rewrite El.
    apply Nat.leb_gt in Hp. rewrite Hp. apply Nat.leb_gt in Hp. f_equal.
    apply enc_chunks_fuel_indep; rewrite skipn_length; lia.
  Qed.

  Lemma enc_chunks_length_pos : forall ctr p, 1 <= length (enc_chunks cs seal ctr p).
  Proof using cs_pos.
    intros ctr p. destruct (le_lt_dec (length p) cs) as [Hle|Hlt].
    - rewrite enc_chunks_last by exact Hle. cbn [length]. lia.
    - rewrite enc_chunks_cons by exact Hlt. cbn [length]. lia.
  Qed.

  (** Number of chunks. *)
  Lemma enc_chunks_length : forall ctr p,
    length (enc_chunks cs seal ctr p) = S ((length p - 1) / cs).
  Proof using cs_pos.
    intros ctr p. revert ctr p. apply enc_chunks_ind.
    - intros ctr p Hle. rewrite enc_chunks_last by exact Hle. cbn [length].
      rewrite Nat.div_small by lia. reflexivity.
    - intros ctr p Hlt IH. rewrite enc_chunks_cons by exact Hlt. cbn [length].
      rewrite IH, skipn_length. f_equal.
      replace (length p - 1) with ((length p - cs - 1) + 1 * cs) by lia.
      rewrite Nat.div_add by lia. lia.
  Qed.

  Lemma enc_chunks_length_le : forall ctr p,
    length (enc_chunks cs seal ctr p) <= S (length p).
  Proof using cs_pos.
    intros ctr p. rewrite enc_chunks_length.
    assert ((length p - 1) / cs <= length p - 1) by (apply Nat.div_le_upper_bound; nia).
    lia.
  Qed.

  (** Counters of the chunks: [ctr], [ctr+1], ... *)
  Lemma enc_chunks_counters_gen : forall ctr p,
    map (fun x => fst (fst x)) (enc_chunks cs seal ctr p)
    = map (fun i => (ctr + N.of_nat i)%N) (seq 0 (length (enc_chunks cs seal ctr p))).
  Proof using cs_pos.
    apply (enc_chunks_ind (fun ctr p =>
      map (fun x => fst (fst x)) (enc_chunks cs seal ctr p)
      = map (fun i => (ctr + N.of_nat i)%N) (seq 0 (length (enc_chunks cs seal ctr p))))).
    - intros ctr p Hle. rewrite enc_chunks_last by exact Hle. cbn [map length seq fst].
      f_equal. lia.
    - intros ctr p Hlt IH. rewrite enc_chunks_cons by exact Hlt.
      cbn [map length seq fst]. f_equal; [lia|]. rewrite IH.
      rewrite <- seq_shift, map_map. apply map_ext. intros i. lia.
  Qed.

  Lemma enc_chunks_counters :
    forall (p : bytes),
      map (fun x => fst (fst x)) (enc_chunks cs seal 0 p)
      = map N.of_nat (seq 0 (length (enc_chunks cs seal 0 p))).
  Proof using cs cs_pos seal.
    intros p. rewrite enc_chunks_counters_gen. apply map_ext. intros i. lia.
  Qed.

  Lemma enc_chunks_flags_gen : forall ctr p,
    map (fun x => snd (fst x)) (enc_chunks cs seal ctr p)
    = repeat false (length (enc_chunks cs seal ctr p) - 1) ++ [true].
  Proof using cs_pos.
    apply (enc_chunks_ind (fun ctr p =>
      map (fun x => snd (fst x)) (enc_chunks cs seal ctr p)
      = repeat false (length (enc_chunks cs seal ctr p) - 1) ++ [true])).
    - intros ctr p Hle. rewrite enc_chunks_last by exact Hle. reflexivity.
    - intros ctr p Hlt IH. rewrite enc_chunks_cons by exact Hlt.
      cbn [map length fst snd]. rewrite IH.
      pose proof (enc_chunks_length_pos (ctr + 1) (skipn cs p)) as Hpos.
      replace (S (length (enc_chunks cs seal (ctr + 1) (skipn cs p))) - 1)
        with (S (length (enc_chunks cs seal (ctr + 1) (skipn cs p)) - 1)) by lia.
      reflexivity.
  Qed.

  Lemma enc_chunks_flags :
    forall (p : bytes),
      map (fun x => snd (fst x)) (enc_chunks cs seal 0 p)
      = repeat false (length (enc_chunks cs seal 0 p) - 1) ++ [true].
  Proof using cs cs_pos seal.
    intros p. apply enc_chunks_flags_gen.
  Qed.

  (** Every chunk's counter lies in [ctr, ctr + length p]. *)
  Lemma enc_chunks_in_ctr : forall ctr p c f x,
    In (c, f, x) (enc_chunks cs seal ctr p) ->
    (ctr <= c /\ c <= ctr + N.of_nat (length p))%N.
  Proof using cs_pos.
    apply (enc_chunks_ind (fun ctr p => forall c f x,
      In (c, f, x) (enc_chunks cs seal ctr p) ->
      (ctr <= c /\ c <= ctr + N.of_nat (length p))%N)).
    - intros ctr p Hle c f x Hin. rewrite enc_chunks_last in Hin by exact Hle.
      destruct Hin as [E|[]]. inversion E; subst. lia.
    - intros ctr p Hlt IH c f x Hin. rewrite enc_chunks_cons in Hin by exact Hlt.
      destruct Hin as [E|Hin].
      + inversion E; subst. lia.
      + apply IH in Hin. rewrite skipn_length in Hin. lia.
  Qed.

  (** The honest list has exactly one entry at its first counter. *)
  Lemma enc_chunks_head : forall ctr p f x,
    In (ctr, f, x) (enc_chunks cs seal ctr p) ->
    (f = true /\ length p <= cs /\ x = seal (nonce_of ctr true) p)
    \/ (f = false /\ cs < length p /\ x = seal (nonce_of ctr false) (firstn cs p)).
  Proof using cs_pos.
    intros ctr p f x Hin. destruct (le_lt_dec (length p) cs) as [Hle|Hlt].
    - rewrite enc_chunks_last in Hin by exact Hle. destruct Hin as [E|[]].
      inversion E; subst. left. auto.
    - rewrite enc_chunks_cons in Hin by exact Hlt. destruct Hin as [E|Hin].
      + inversion E; subst. right. auto.
      + apply enc_chunks_in_ctr in Hin. lia.
  Qed.

  Lemma enc_chunks_nonces_nodup_gen : forall ctr p,
    (ctr + N.of_nat (length p) < ctr_limit)%N ->
    NoDup (nonces_of (enc_chunks cs seal ctr p)).
  Proof using cs_pos.
    apply (enc_chunks_ind (fun ctr p =>
      (ctr + N.of_nat (length p) < ctr_limit)%N ->
      NoDup (nonces_of (enc_chunks cs seal ctr p)))).
    - intros ctr p Hle _. rewrite enc_chunks_last by exact Hle.
      cbn [nonces_of map]. constructor; [intros []|constructor].
    - intros ctr p Hlt IH Hlim. rewrite enc_chunks_cons by exact Hlt.
      unfold nonces_of. cbn [map fst snd]. constructor.
      + intros Hin. apply in_map_iff in Hin. destruct Hin as [[[c f] x] [E Hin]].
        cbn [fst snd] in E. apply enc_chunks_in_ctr in Hin.
        rewrite skipn_length in Hin.
        apply nonce_of_inj in E; [|lia|lia]. lia.
      + apply IH. rewrite skipn_length. lia.
  Qed.

  Lemma enc_chunks_nonces_nodup :
    forall (p : bytes),
      (N.of_nat (length p) < ctr_limit)%N ->
      NoDup (nonces_of (enc_chunks cs seal 0 p)).
  Proof using cs cs_pos seal.
    intros p Hp. apply enc_chunks_nonces_nodup_gen. lia.
  Qed.

  Lemma enc_chunks_are_seals_gen : forall ctr p (i : nat) (c : N) (l : bool) (ct : bytes),
    nth_error (enc_chunks cs seal ctr p) i = Some (c, l, ct) ->
    ct = seal (nonce_of c l) (firstn cs (skipn (i * cs) p)).
  Proof using cs_pos.
    apply (enc_chunks_ind (fun ctr p => forall (i : nat) (c : N) (l : bool) (ct : bytes),
      nth_error (enc_chunks cs seal ctr p) i = Some (c, l, ct) ->
      ct = seal (nonce_of c l) (firstn cs (skipn (i * cs) p)))).
    - intros ctr p Hle i c l ct Hn. rewrite enc_chunks_last in Hn by exact Hle.
      destruct i as [|i]; cbn [nth_error] in Hn.
      + inversion Hn; subst. cbn [Nat.mul skipn]. rewrite firstn_all2 by exact Hle.
        reflexivity.
      + destruct i; discriminate Hn.
    - intros ctr p Hlt IH i c l ct Hn. rewrite enc_chunks_cons in Hn by exact Hlt.
      destruct i as [|i]; cbn [nth_error] in Hn.
      + inversion Hn; subst. reflexivity.
      + apply IH in Hn. rewrite skipn_skipn_add in Hn.
        replace (S i * cs) with (cs + i * cs) by lia. exact Hn.
  Qed.

  Lemma enc_chunks_are_seals :
    forall (p : bytes) (i : nat) (c : N) (l : bool) (ct : bytes),
      nth_error (enc_chunks cs seal 0 p) i = Some (c, l, ct) ->
      ct = seal (nonce_of c l) (firstn cs (skipn (i * cs) p)).
  Proof using cs cs_pos seal.
    intros p. apply enc_chunks_are_seals_gen.
  Qed.
End Enc.

(** * The reader-side format: [dec_fuel] as a relation *)

Section Dec.
  Variable cs : nat.
  Variable open_ : bytes -> bytes -> option bytes.

  Lemma ecs_eq : ecs cs = cs + 16.
  Proof. reflexivity. Qed.

  Lemma dec_fuel_nil : forall f ctr,
    dec_fuel cs open_ (S f) ctr [] = ([], Failed ETrunc, []).
  Proof. reflexivity. Qed.

  (** One unfolding of [dec_fuel] on a non-empty input, [try_open] expanded. *)
  Lemma dec_fuel_step : forall f ctr ct,
    ct <> [] ->
    dec_fuel cs open_ (S f) ctr ct =
      if Nat.ltb (length ct) (ecs cs) then
        if negb (N.eqb ctr 0) && Nat.eqb (length (firstn (ecs cs) ct)) overhead
        then ([], Failed EPayload, [])
        else
          match open_ (nonce_of ctr true) (firstn (ecs cs) ct) with
          | Some p => (p, CleanEOF, [mkAttempt ctr true (firstn (ecs cs) ct) true])
          | None => ([], Failed EPayload, [mkAttempt ctr true (firstn (ecs cs) ct) false])
          end
      else
        match open_ (nonce_of ctr false) (firstn (ecs cs) ct) with
        | Some p =>
            if N.eqb (ctr + 1) ctr_limit
            then (p, Failed EOther, [mkAttempt ctr false (firstn (ecs cs) ct) true])
            else
              let '(q, o, l) := dec_fuel cs open_ f (ctr + 1) (skipn (ecs cs) ct) in
              (p ++ q, o, mkAttempt ctr false (firstn (ecs cs) ct) true :: l)
        | None =>
            match open_ (nonce_of ctr true) (firstn (ecs cs) ct) with
            | Some p =>
                (p, match skipn (ecs cs) ct with [] => CleanEOF | _ => Failed ETrailing end,
                 [mkAttempt ctr false (firstn (ecs cs) ct) false;
                  mkAttempt ctr true (firstn (ecs cs) ct) true])
            | None =>
                ([], Failed EPayload,
                 [mkAttempt ctr false (firstn (ecs cs) ct) false;
                  mkAttempt ctr true (firstn (ecs cs) ct) false])
            end
        end.
  Proof.
    intros f ctr ct Hne. destruct ct as [|b ct]; [congruence|].
    cbn [dec_fuel]. unfold try_open. cbv zeta.
    destruct (Nat.ltb (length (b :: ct)) (ecs cs)).
    - destruct (negb (N.eqb ctr 0) && Nat.eqb (length (firstn (ecs cs) (b :: ct))) overhead);
        [reflexivity|].
      destruct (open_ (nonce_of ctr true) (firstn (ecs cs) (b :: ct))); reflexivity.
    - destruct (open_ (nonce_of ctr false) (firstn (ecs cs) (b :: ct))); [reflexivity|].
      destruct (open_ (nonce_of ctr true) (firstn (ecs cs) (b :: ct))); reflexivity.
  Qed.

  (** The reader on the remaining ciphertext [ct] at counter [ctr]: plaintext
      released, outcome, trace.  One constructor per leaf of [dec_fuel]. *)
  Inductive dec_rel : N -> bytes -> bytes -> outcome -> list attempt -> Prop :=
  | DR_trunc : forall ctr,
      dec_rel ctr [] [] (Failed ETrunc) []
  | DR_short_empty : forall ctr ct,
      ct <> [] -> length ct < ecs cs -> ctr <> 0%N -> length ct = 16 ->
      dec_rel ctr ct [] (Failed EPayload) []
  | DR_short_ok : forall ctr ct p,
      ct <> [] -> length ct < ecs cs -> (ctr = 0%N \/ length ct <> 16) ->
      open_ (nonce_of ctr true) ct = Some p ->
      dec_rel ctr ct p CleanEOF [mkAttempt ctr true ct true]
  | DR_short_bad : forall ctr ct,
      ct <> [] -> length ct < ecs cs -> (ctr = 0%N \/ length ct <> 16) ->
      open_ (nonce_of ctr true) ct = None ->
      dec_rel ctr ct [] (Failed EPayload) [mkAttempt ctr true ct false]
  | DR_limit : forall ctr ct p,
      ecs cs <= length ct ->
      open_ (nonce_of ctr false) (firstn (ecs cs) ct) = Some p ->
      (ctr + 1 = ctr_limit)%N ->
      dec_rel ctr ct p (Failed EOther) [mkAttempt ctr false (firstn (ecs cs) ct) true]
  | DR_more : forall ctr ct p q o l,
      ecs cs <= length ct ->
      open_ (nonce_of ctr false) (firstn (ecs cs) ct) = Some p ->
      (ctr + 1 <> ctr_limit)%N ->
      dec_rel (ctr + 1) (skipn (ecs cs) ct) q o l ->
      dec_rel ctr ct (p ++ q) o (mkAttempt ctr false (firstn (ecs cs) ct) true :: l)
  | DR_last_clean : forall ctr ct p,
      ecs cs <= length ct ->
      open_ (nonce_of ctr false) (firstn (ecs cs) ct) = None ->
      open_ (nonce_of ctr true) (firstn (ecs cs) ct) = Some p ->
      skipn (ecs cs) ct = [] ->
      dec_rel ctr ct p CleanEOF
        [mkAttempt ctr false (firstn (ecs cs) ct) false;
         mkAttempt ctr true (firstn (ecs cs) ct) true]
  | DR_last_trailing : forall ctr ct p,
      ecs cs <= length ct ->
      open_ (nonce_of ctr false) (firstn (ecs cs) ct) = None ->
      open_ (nonce_of ctr true) (firstn (ecs cs) ct) = Some p ->
      skipn (ecs cs) ct <> [] ->
      dec_rel ctr ct p (Failed ETrailing)
        [mkAttempt ctr false (firstn (ecs cs) ct) false;
         mkAttempt ctr true (firstn (ecs cs) ct) true]
  | DR_bad : forall ctr ct,
      ecs cs <= length ct ->
      open_ (nonce_of ctr false) (firstn (ecs cs) ct) = None ->
      open_ (nonce_of ctr true) (firstn (ecs cs) ct) = None ->
      dec_rel ctr ct [] (Failed EPayload)
        [mkAttempt ctr false (firstn (ecs cs) ct) false;
         mkAttempt ctr true (firstn (ecs cs) ct) false].

  Lemma ecs_le_nonnil : forall ct : bytes, ecs cs <= length ct -> ct <> [].
  Proof.
    intros ct Hle E. subst ct. rewrite ecs_eq in Hle. cbn [length] in Hle. lia.
  Qed.

  (** [dec_fuel] with enough fuel computes a derivation of [dec_rel] ... *)
  Lemma dec_fuel_rel : forall fuel ctr ct r o l,
    length ct < fuel ->
    dec_fuel cs open_ fuel ctr ct = (r, o, l) ->
    dec_rel ctr ct r o l.
  Proof.
    induction fuel as [|f IH]; intros ctr ct r o l Hf E; [lia|].
    assert (Hnil : ct = [] \/ ct <> []) by (destruct ct; [left|right]; congruence).
    destruct Hnil as [Hnil|Hne].
    { subst ct. rewrite dec_fuel_nil in E. inversion E; subst. constructor. }
    rewrite dec_fuel_step in E by exact Hne.
    destruct (Nat.ltb (length ct) (ecs cs)) eqn:Elt.
    - apply Nat.ltb_lt in Elt. rewrite firstn_all2 in E by lia.
      destruct (negb (N.eqb ctr 0) && Nat.eqb (length ct) overhead) eqn:Eg.
      + inversion E; subst. unfold overhead in Eg.
        apply DR_short_empty; [exact Hne|exact Elt|lia|lia].
      + assert (Hg : ctr = 0%N \/ length ct <> 16) by (unfold overhead in Eg; lia).
        destruct (open_ (nonce_of ctr true) ct) as [p|] eqn:Eo; inversion E; subst.
        * apply DR_short_ok; assumption.
        * apply DR_short_bad; assumption.
    - apply Nat.ltb_ge in Elt.
      destruct (open_ (nonce_of ctr false) (firstn (ecs cs) ct)) as [p|] eqn:Eo.
      + destruct (N.eqb (ctr + 1) ctr_limit) eqn:El.
        * inversion E; subst. apply N.eqb_eq in El. apply DR_limit; assumption.
        * destruct (dec_fuel cs open_ f (ctr + 1) (skipn (ecs cs) ct)) as [[q o'] l'] eqn:Er.
          inversion E; subst. apply N.eqb_neq in El.
          apply DR_more; [exact Elt|exact Eo|exact El|].
          apply IH; [|exact Er]. rewrite skipn_length. rewrite ecs_eq in *. lia.
      + destruct (open_ (nonce_of ctr true) (firstn (ecs cs) ct)) as [p|] eqn:Eo'.
        * destruct (skipn (ecs cs) ct) as [|b rest] eqn:Es; inversion E; subst.
          -- apply DR_last_clean; assumption.
          -- apply DR_last_trailing; [assumption|assumption|assumption|].
             rewrite Es. discriminate.
        * inversion E; subst. apply DR_bad; assumption.
  Qed.

  (** ... and every derivation is what [dec_fuel] computes, for any such fuel. *)
  Lemma dec_rel_fuel : forall ctr ct r o l,
    dec_rel ctr ct r o l ->
    forall fuel, length ct < fuel -> dec_fuel cs open_ fuel ctr ct = (r, o, l).
  Proof.
    intros ctr ct r o l Hrel.
    induction Hrel as
      [ ctr
      | ctr ct Hne Hlt Hc Hl
      | ctr ct p Hne Hlt Hg Ho
      | ctr ct Hne Hlt Hg Ho
      | ctr ct p Hle Ho Hlim
      | ctr ct p q o l Hle Ho Hlim Hrest IH
      | ctr ct p Hle Ho Ho' Hs
      | ctr ct p Hle Ho Ho' Hs
      | ctr ct Hle Ho Ho' ];
      intros fuel Hf; (destruct fuel as [|f]; [lia|]).
    - reflexivity.
    - rewrite dec_fuel_step by exact Hne.
      apply Nat.ltb_lt in Hlt. rewrite Hlt. apply Nat.ltb_lt in Hlt.
      rewrite firstn_all2 by lia.
      replace (negb (N.eqb ctr 0) && Nat.eqb (length ct) overhead) with true
        by (unfold overhead; lia).
      reflexivity.
    - rewrite dec_fuel_step by exact Hne.
      apply Nat.ltb_lt in Hlt. rewrite Hlt. apply Nat.ltb_lt in Hlt.
      rewrite firstn_all2 by lia.
      replace (negb (N.eqb ctr 0) && Nat.eqb (length ct) overhead) with false
        by (unfold overhead; lia).
      rewrite Ho. reflexivity.
    - rewrite dec_fuel_step by exact Hne.
      apply Nat.ltb_lt in Hlt. rewrite Hlt. apply Nat.ltb_lt in Hlt.
      rewrite firstn_all2 by lia.
      replace (negb (N.eqb ctr 0) && Nat.eqb (length ct) overhead) with false
        by (unfold overhead; lia).
      rewrite Ho. reflexivity.
    - rewrite dec_fuel_step by (apply ecs_le_nonnil; exact Hle).
      apply Nat.ltb_ge in Hle. rewrite Hle, Ho.
      apply N.eqb_eq in Hlim. rewrite Hlim. reflexivity.
    - rewrite dec_fuel_step by (apply ecs_le_nonnil; exact Hle).
      pose proof Hle as Hle'. apply Nat.ltb_ge in Hle'. rewrite Hle', Ho.
      apply N.eqb_neq in Hlim. rewrite Hlim.
      rewrite IH; [reflexivity|]. rewrite skipn_length. rewrite ecs_eq in *. lia.
    - rewrite dec_fuel_step by (apply ecs_le_nonnil; exact Hle).
      apply Nat.ltb_ge in Hle. rewrite Hle, Ho, Ho', Hs. reflexivity.
    - rewrite dec_fuel_step by (apply ecs_le_nonnil; exact Hle).
      apply Nat.ltb_ge in Hle. rewrite Hle, Ho, Ho'.
      destruct (skipn (ecs cs) ct); [congruence|reflexivity].
    - rewrite dec_fuel_step by (apply ecs_le_nonnil; exact Hle).
      apply Nat.ltb_ge in Hle. rewrite Hle, Ho, Ho'. reflexivity.
  Qed.

  (** Fuel independence. *)
  Lemma dec_fuel_indep : forall f1 f2 ctr ct,
    length ct < f1 -> length ct < f2 ->
    dec_fuel cs open_ f1 ctr ct = dec_fuel cs open_ f2 ctr ct.
  Proof.
    intros f1 f2 ctr ct H1 H2.
    destruct (dec_fuel cs open_ f1 ctr ct) as [[r o] l] eqn:E.
    symmetry. apply (dec_rel_fuel ctr ct r o l); [|exact H2].
    apply (dec_fuel_rel f1); assumption.
  Qed.

  Lemma dec_fuel_decrypt_spec : forall fuel ct,
    length ct < fuel -> dec_fuel cs open_ fuel 0 ct = decrypt_spec cs open_ ct.
  Proof.
    intros fuel ct Hf. unfold decrypt_spec. apply dec_fuel_indep; lia.
  Qed.

  Lemma decrypt_spec_rel : forall ct r o l,
    decrypt_spec cs open_ ct = (r, o, l) <-> dec_rel 0 ct r o l.
  Proof.
    intros ct r o l. unfold decrypt_spec. split.
    - apply dec_fuel_rel. lia.
    - intros Hrel. apply dec_rel_fuel; [exact Hrel|lia].
  Qed.

  (** The reader's counter only grows. *)
  Lemma dec_rel_attempts_ge : forall ctr ct r o l,
    dec_rel ctr ct r o l -> forall a, In a l -> (ctr <= a_ctr a)%N.
  Proof.
    intros ctr ct r o l Hrel.
    induction Hrel as
      [ ctr
      | ctr ct Hne Hlt Hc Hl
      | ctr ct p Hne Hlt Hg Ho
      | ctr ct Hne Hlt Hg Ho
      | ctr ct p Hle Ho Hlim
      | ctr ct p q o l Hle Ho Hlim Hrest IH
      | ctr ct p Hle Ho Ho' Hs
      | ctr ct p Hle Ho Ho' Hs
      | ctr ct Hle Ho Ho' ];
      intros a Hin; cbn [In] in Hin;
      repeat (destruct Hin as [Hin|Hin]; [subst a; cbn [a_ctr]; lia|]);
      try contradiction.
    apply IH in Hin. lia.
  Qed.

  (** [Failed EOther] arises only from the counter-limit branch. *)
  Lemma dec_rel_EOther : forall ctr ct r o l,
    dec_rel ctr ct r o l -> o = Failed EOther ->
    exists a, In a l /\ a_ok a = true /\ a_last a = false /\ (a_ctr a + 1 = ctr_limit)%N.
  Proof.
    intros ctr ct r o l Hrel.
    induction Hrel as
      [ ctr
      | ctr ct Hne Hlt Hc Hl
      | ctr ct p Hne Hlt Hg Ho
      | ctr ct Hne Hlt Hg Ho
      | ctr ct p Hle Ho Hlim
      | ctr ct p q o l Hle Ho Hlim Hrest IH
      | ctr ct p Hle Ho Ho' Hs
      | ctr ct p Hle Ho Ho' Hs
      | ctr ct Hle Ho Ho' ];
      intros Eo; try discriminate Eo.
    - eexists. split; [left; reflexivity|]. cbn. auto.
    - destruct (IH Eo) as [a [Hin Ha]]. exists a. split; [right; exact Hin|exact Ha].
  Qed.

  Lemma dec_fuel_EOther : forall fuel ctr ct r l,
    length ct < fuel ->
    dec_fuel cs open_ fuel ctr ct = (r, Failed EOther, l) ->
    exists a, In a l /\ a_ok a = true /\ a_last a = false /\ (a_ctr a + 1 = ctr_limit)%N.
  Proof.
    intros fuel ctr ct r l Hf E. apply dec_fuel_rel in E; [|exact Hf].
    apply (dec_rel_EOther _ _ _ _ _ E). reflexivity.
  Qed.

  Lemma dec_rel_not_EOther : forall ctr ct r o l,
    dec_rel ctr ct r o l ->
    (ctr + N.of_nat (length ct) < ctr_limit)%N -> o <> Failed EOther.
  Proof.
    intros ctr ct r o l Hrel.
    induction Hrel as
      [ ctr
      | ctr ct Hne Hlt Hc Hl
      | ctr ct p Hne Hlt Hg Ho
      | ctr ct Hne Hlt Hg Ho
      | ctr ct p Hle Ho Hlim
      | ctr ct p q o l Hle Ho Hlim Hrest IH
      | ctr ct p Hle Ho Ho' Hs
      | ctr ct p Hle Ho Ho' Hs
      | ctr ct Hle Ho Ho' ];
      intros Hb; try discriminate.
    - rewrite ecs_eq in Hle. lia.
    - apply IH. rewrite skipn_length. rewrite ecs_eq in *. lia.
  Qed.

  Lemma dec_fuel_not_EOther : forall fuel ctr ct r o l,
    length ct < fuel ->
    (ctr + N.of_nat (length ct) < ctr_limit)%N ->
    dec_fuel cs open_ fuel ctr ct = (r, o, l) -> o <> Failed EOther.
  Proof.
    intros fuel ctr ct r o l Hf Hb E. apply dec_fuel_rel in E; [|exact Hf].
    exact (dec_rel_not_EOther _ _ _ _ _ E Hb).
  Qed.
End Dec.

(** * Encryption against decryption *)

Section Main.
  Variable cs : nat.
  Hypothesis cs_pos : 0 < cs.
  Variable seal : bytes -> bytes -> bytes.
  Variable open_ : bytes -> bytes -> option bytes.
  Hypothesis aead_correct : forall n p, open_ n (seal n p) = Some p.
  Hypothesis seal_len : forall n p, length (seal n p) = length p + 16.

  (** The ciphertext of [p] when the first chunk is sealed under counter [ctr]
      ([encrypt_spec] is the case [ctr = 0]). *)
  Local Notation enc_from ctr p :=
    (concat (map (fun x : N * bool * bytes => snd x) (enc_chunks cs seal ctr p))).

  Lemma enc_from_last : forall ctr p,
    length p <= cs -> enc_from ctr p = seal (nonce_of ctr true) p.
  Proof using cs_pos.
    intros ctr p Hle. rewrite enc_chunks_last by exact Hle.
    cbn [map concat snd]. apply app_nil_r.
  Qed.

  Lemma enc_from_cons : forall ctr p,
    cs < length p ->
    enc_from ctr p
    = seal (nonce_of ctr false) (firstn cs p) ++ enc_from (ctr + 1)%N (skipn cs p).
  Proof using cs_pos.
    intros ctr p Hlt. rewrite (enc_chunks_cons cs cs_pos seal) by exact Hlt. reflexivity.
  Qed.

  Lemma length_enc_from : forall ctr p,
    length (enc_from ctr p) = length p + 16 * length (enc_chunks cs seal ctr p).
  Proof using cs_pos seal_len.
    clear aead_correct open_.
    apply (enc_chunks_ind cs cs_pos (fun ctr p =>
      length (enc_from ctr p) = length p + 16 * length (enc_chunks cs seal ctr p))).
    - intros ctr p Hle. rewrite enc_from_last by exact Hle.
      rewrite enc_chunks_last by exact Hle. rewrite seal_len. cbn [length]. lia.
    - intros ctr p Hlt IH. rewrite enc_from_cons by exact Hlt.
      rewrite (enc_chunks_cons cs cs_pos seal ctr p Hlt).
      rewrite app_length, IH, seal_len, firstn_length, skipn_length. cbn [length]. lia.
  Qed.

  Lemma length_encrypt_spec_chunks : forall p,
    length (encrypt_spec cs seal p) = length p + 16 * length (enc_chunks cs seal 0 p).
  Proof using cs_pos seal_len.
    intros p. unfold encrypt_spec. apply length_enc_from.
  Qed.

  Lemma length_encrypt_spec : forall p,
    length (encrypt_spec cs seal p) = length p + 16 * S ((length p - 1) / cs).
  Proof using cs_pos seal_len.
    intros p. rewrite length_encrypt_spec_chunks.
    rewrite (enc_chunks_length cs cs_pos seal). reflexivity.
  Qed.

  (** An honest triple at the head counter opens to the head slice. *)
  Lemma honest_open : forall ctr p f x p0,
    In (ctr, f, x) (enc_chunks cs seal ctr p) ->
    open_ (nonce_of ctr f) x = Some p0 ->
    (f = true /\ length p <= cs /\ p0 = p /\ x = seal (nonce_of ctr true) p)
    \/ (f = false /\ cs < length p /\ p0 = firstn cs p
        /\ x = seal (nonce_of ctr false) (firstn cs p)).
  Proof using cs_pos aead_correct.
    intros ctr p f x p0 Hin Ho.
    apply (enc_chunks_head cs cs_pos seal) in Hin.
    destruct Hin as [[Hf [Hl Hx]]|[Hf [Hl Hx]]]; subst f x;
      rewrite aead_correct in Ho; inversion Ho; subst p0; [left|right]; auto.
  Qed.

  Lemma no_forgery_tail : forall ctr p a l,
    cs < length p ->
    no_forgery (enc_chunks cs seal ctr p) (a :: l) ->
    (forall a', In a' l -> (ctr + 1 <= a_ctr a')%N) ->
    no_forgery (enc_chunks cs seal (ctr + 1) (skipn cs p)) l.
  Proof using cs_pos.
    clear aead_correct seal_len open_.
    intros ctr p a l Hlt Hnf Hge a' Hin Hok.
    specialize (Hnf a' (or_intror Hin) Hok).
    rewrite (enc_chunks_cons cs cs_pos seal) in Hnf by exact Hlt.
    destruct Hnf as [E|Hnf]; [|exact Hnf].
    inversion E as [[Ec Ef Ex]]. specialize (Hge a' Hin). lia.
  Qed.

  (** The core theorem, from any starting counter. *)
  Lemma tamper_rel : forall ctr ct r o l,
    dec_rel cs open_ ctr ct r o l ->
    forall p,
      no_forgery (enc_chunks cs seal ctr p) l ->
      is_prefix r p = true /\ (o = CleanEOF -> ct = enc_from ctr p /\ r = p).
  Proof using cs_pos aead_correct seal_len.
    intros ctr ct r o l Hrel.
    induction Hrel as
      [ ctr
      | ctr ct Hne Hlt Hc Hl
      | ctr ct p0 Hne Hlt Hg Ho
      | ctr ct Hne Hlt Hg Ho
      | ctr ct p0 Hle Ho Hlim
      | ctr ct p0 q o l Hle Ho Hlim Hrest IH
      | ctr ct p0 Hle Ho Ho' Hs
      | ctr ct p0 Hle Ho Ho' Hs
      | ctr ct Hle Ho Ho' ];
      intros p Hnf.
    - split; [reflexivity|discriminate].
    - split; [reflexivity|discriminate].
    - pose proof (Hnf _ (or_introl eq_refl) eq_refl) as Hin. cbn [a_ctr a_last a_ct] in Hin.
      destruct (honest_open _ _ _ _ _ Hin Ho) as [[_ [Hl [Hp Hx]]]|[Hf _]]; [|discriminate Hf].
      subst p0. split; [apply is_prefix_refl|]. intros _.
      rewrite enc_from_last by exact Hl. auto.
    - split; [reflexivity|discriminate].
    - pose proof (Hnf _ (or_introl eq_refl) eq_refl) as Hin. cbn [a_ctr a_last a_ct] in Hin.
      destruct (honest_open _ _ _ _ _ Hin Ho) as [[Hf _]|[_ [Hl [Hp Hx]]]]; [discriminate Hf|].
      subst p0. split; [apply is_prefix_firstn|discriminate].
    - pose proof (Hnf _ (or_introl eq_refl) eq_refl) as Hin. cbn [a_ctr a_last a_ct] in Hin.
      destruct (honest_open _ _ _ _ _ Hin Ho) as [[Hf _]|[_ [Hl [Hp Hx]]]]; [discriminate Hf|].
      subst p0.
      assert (Hnf' : no_forgery (enc_chunks cs seal (ctr + 1) (skipn cs p)) l).
      { apply (no_forgery_tail ctr p _ l Hl Hnf).
        intros a' Hin'. exact (dec_rel_attempts_ge cs open_ _ _ _ _ _ Hrest a' Hin'). }
      destruct (IH (skipn cs p) Hnf') as [Hpre Hclean]. split.
      + apply is_prefix_firstn_app. exact Hpre.
      + intros Eo. destruct (Hclean Eo) as [Hct Hq]. subst q. split.
        * rewrite enc_from_cons by exact Hl. rewrite <- Hx, <- Hct. symmetry.
          apply firstn_skipn.
        * apply firstn_skipn.
    - pose proof (Hnf _ (or_intror (or_introl eq_refl)) eq_refl) as Hin.
      cbn [a_ctr a_last a_ct] in Hin.
      destruct (honest_open _ _ _ _ _ Hin Ho') as [[_ [Hl [Hp Hx]]]|[Hf _]]; [|discriminate Hf].
      subst p0. split; [apply is_prefix_refl|]. intros _.
      rewrite enc_from_last by exact Hl. split; [|reflexivity].
      rewrite <- Hx. rewrite <- (firstn_skipn (ecs cs) ct) at 1. rewrite Hs. apply app_nil_r.
    - pose proof (Hnf _ (or_intror (or_introl eq_refl)) eq_refl) as Hin.
      cbn [a_ctr a_last a_ct] in Hin.
      destruct (honest_open _ _ _ _ _ Hin Ho') as [[_ [Hl [Hp Hx]]]|[Hf _]]; [|discriminate Hf].
      subst p0. split; [apply is_prefix_refl|discriminate].
    - split; [reflexivity|discriminate].
  Qed.

  Lemma tamper_fuel : forall fuel ctr ct p r o l,
    length ct < fuel ->
    dec_fuel cs open_ fuel ctr ct = (r, o, l) ->
    no_forgery (enc_chunks cs seal ctr p) l ->
    is_prefix r p = true /\ (o = CleanEOF -> ct = enc_from ctr p /\ r = p).
  Proof using cs_pos aead_correct seal_len.
    intros fuel ctr ct p r o l Hf E Hnf.
    apply (tamper_rel ctr ct r o l); [|exact Hnf].
    apply (dec_fuel_rel cs open_ fuel); assumption.
  Qed.

  Lemma tamper_prefix :
    forall (p ct : bytes),
      let '(released, o, attempts) := decrypt_spec cs open_ ct in
      no_forgery (enc_chunks cs seal 0 p) attempts ->
      is_prefix released p = true.
  Proof using cs cs_pos seal open_ aead_correct seal_len.
    intros p ct. destruct (decrypt_spec cs open_ ct) as [[r o] l] eqn:E.
    intros Hnf. apply decrypt_spec_rel in E.
    exact (proj1 (tamper_rel _ _ _ _ _ E p Hnf)).
  Qed.

  Lemma tamper_clean_eof :
    forall (p ct : bytes),
      let '(released, o, attempts) := decrypt_spec cs open_ ct in
      no_forgery (enc_chunks cs seal 0 p) attempts ->
      o = CleanEOF -> ct = encrypt_spec cs seal p /\ released = p.
  Proof using cs cs_pos seal open_ aead_correct seal_len.
    intros p ct. destruct (decrypt_spec cs open_ ct) as [[r o] l] eqn:E.
    intros Hnf Ho. apply decrypt_spec_rel in E. unfold encrypt_spec.
    exact (proj2 (tamper_rel _ _ _ _ _ E p Hnf) Ho).
  Qed.

  Lemma unique_chunking :
    forall (p ct1 ct2 : bytes),
      (let '(_, o, l) := decrypt_spec cs open_ ct1 in
       o = CleanEOF /\ no_forgery (enc_chunks cs seal 0 p) l) ->
      (let '(_, o, l) := decrypt_spec cs open_ ct2 in
       o = CleanEOF /\ no_forgery (enc_chunks cs seal 0 p) l) ->
      ct1 = ct2.
  Proof using cs cs_pos seal open_ aead_correct seal_len.
    intros p ct1 ct2 H1 H2.
    pose proof (tamper_clean_eof p ct1) as T1. pose proof (tamper_clean_eof p ct2) as T2.
    destruct (decrypt_spec cs open_ ct1) as [[r1 o1] l1].
    destruct (decrypt_spec cs open_ ct2) as [[r2 o2] l2].
    destruct H1 as [Ho1 Hnf1]. destruct H2 as [Ho2 Hnf2].
    destruct (T1 Hnf1 Ho1) as [E1 _]. destruct (T2 Hnf2 Ho2) as [E2 _]. congruence.
  Qed.

  (** Decrypting an honest ciphertext: the run exists, and it releases [p]
      and ends cleanly when the final chunk is not full or nothing was forged. *)
  Lemma roundtrip_rel : forall ctr p,
    (ctr = 0%N \/ p <> []) ->
    (ctr + N.of_nat (length p) < ctr_limit)%N ->
    exists r o l,
      dec_rel cs open_ ctr (enc_from ctr p) r o l
      /\ ((length p = 0 \/ length p mod cs <> 0
           \/ no_forgery (enc_chunks cs seal ctr p) l) -> r = p /\ o = CleanEOF).
  Proof using cs_pos aead_correct seal_len.
    apply (enc_chunks_ind cs cs_pos (fun ctr p =>
      (ctr = 0%N \/ p <> []) ->
      (ctr + N.of_nat (length p) < ctr_limit)%N ->
      exists r o l,
        dec_rel cs open_ ctr (enc_from ctr p) r o l
        /\ ((length p = 0 \/ length p mod cs <> 0
             \/ no_forgery (enc_chunks cs seal ctr p) l) -> r = p /\ o = CleanEOF))).
    - intros ctr p Hle Hz Hb. rewrite enc_from_last by exact Hle.
      remember (seal (nonce_of ctr true) p) as ct eqn:Ect.
      assert (Hlen : length ct = length p + 16) by (subst ct; apply seal_len).
      assert (Hopen : open_ (nonce_of ctr true) ct = Some p) by (subst ct; apply aead_correct).
      assert (Hne : ct <> []) by (intros E; rewrite E in Hlen; cbn [length] in Hlen; lia).
      destruct (Nat.eq_dec (length p) cs) as [Heq|Hneq].
      + assert (Hfirst : firstn (ecs cs) ct = ct) by (apply firstn_all2; rewrite ecs_eq; lia).
        assert (Hskip : skipn (ecs cs) ct = []) by (apply skipn_all2; rewrite ecs_eq; lia).
        assert (Hecs : ecs cs <= length ct) by (rewrite ecs_eq; lia).
        destruct (open_ (nonce_of ctr false) ct) as [p0|] eqn:Ef.
        * assert (Hvac : forall l',
            ~ (length p = 0 \/ length p mod cs <> 0
               \/ no_forgery (enc_chunks cs seal ctr p) (mkAttempt ctr false ct true :: l'))).
          { intros l' [H0|[Hm|Hnf]].
            - lia.
            - rewrite Heq, Nat.mod_same in Hm by lia. congruence.
            - specialize (Hnf _ (or_introl eq_refl) eq_refl). cbn [a_ctr a_last a_ct] in Hnf.
              rewrite enc_chunks_last in Hnf by exact Hle.
              destruct Hnf as [E|[]]. inversion E. }
          destruct (N.eq_dec (ctr + 1) ctr_limit) as [Hlim|Hlim].
          -- exists p0, (Failed EOther), [mkAttempt ctr false ct true]. split.
             ++ pose proof (DR_limit cs open_ ctr ct p0) as D. rewrite Hfirst in D.
                apply D; assumption.
             ++ intros Hc. destruct (Hvac [] Hc).
          -- exists (p0 ++ []), (Failed ETrunc), [mkAttempt ctr false ct true]. split.
             ++ pose proof (DR_more cs open_ ctr ct p0 [] (Failed ETrunc) []) as D.
                rewrite Hfirst, Hskip in D. apply D; try assumption. constructor.
             ++ intros Hc. destruct (Hvac [] Hc).
        * exists p, CleanEOF,
            [mkAttempt ctr false ct false; mkAttempt ctr true ct true]. split; [|auto].
          pose proof (DR_last_clean cs open_ ctr ct p) as D. rewrite Hfirst in D.
          apply D; assumption.
      + exists p, CleanEOF, [mkAttempt ctr true ct true]. split; [|auto].
        apply DR_short_ok; [exact Hne|rewrite ecs_eq; lia| |exact Hopen].
        destruct Hz as [Hz|Hz]; [left; exact Hz|right].
        destruct p as [|b p]; [congruence|]. cbn [length] in Hlen. lia.
    - intros ctr p Hlt IH Hz Hb. rewrite enc_from_cons by exact Hlt.
      remember (seal (nonce_of ctr false) (firstn cs p)) as c eqn:Ec.
      assert (Hlen : length c = ecs cs).
      { subst c. rewrite seal_len, firstn_length, ecs_eq. lia. }
      assert (Hopen : open_ (nonce_of ctr false) c = Some (firstn cs p))
        by (subst c; apply aead_correct).
      assert (Hskl : length (skipn cs p) = length p - cs) by apply skipn_length.
      destruct IH as [r' [o' [l' [D' Himp]]]].
      { right. intros E. rewrite E in Hskl. cbn [length] in Hskl. lia. }
      { rewrite Hskl. lia. }
      exists (firstn cs p ++ r'), o', (mkAttempt ctr false c true :: l'). split.
      + pose proof (DR_more cs open_ ctr (c ++ enc_from (ctr + 1)%N (skipn cs p))
                      (firstn cs p) r' o' l') as D.
        rewrite (firstn_app_exact _ c _ _ Hlen), (skipn_app_exact _ c _ _ Hlen) in D.
        apply D; [rewrite app_length; lia|exact Hopen|lia|exact D'].
      + intros Hc.
        assert (Hc' : length (skipn cs p) = 0 \/ length (skipn cs p) mod cs <> 0
                      \/ no_forgery (enc_chunks cs seal (ctr + 1) (skipn cs p)) l').
        { destruct Hc as [H0|[Hm|Hnf]].
          - lia.
          - right. left. rewrite Hskl.
            replace (length p) with ((length p - cs) + 1 * cs) in Hm by lia.
            rewrite Nat.mod_add in Hm by lia. exact Hm.
          - right. right. apply (no_forgery_tail ctr p _ l' Hlt Hnf).
            intros a' Hin'. exact (dec_rel_attempts_ge cs open_ _ _ _ _ _ D' a' Hin'). }
        destruct (Himp Hc') as [Hr Ho]. subst r' o'. split; [apply firstn_skipn|reflexivity].
  Qed.

  Lemma stream_roundtrip :
    forall (p : bytes),
      (N.of_nat (length p) < ctr_limit)%N ->
      let '(released, o, attempts) := decrypt_spec cs open_ (encrypt_spec cs seal p) in
      no_forgery (enc_chunks cs seal 0 p) attempts ->
      released = p /\ o = CleanEOF.
  Proof using cs cs_pos seal open_ aead_correct seal_len.
    intros p Hb.
    destruct (roundtrip_rel 0 p (or_introl eq_refl)) as [r [o [l [D Himp]]]]; [lia|].
    apply decrypt_spec_rel in D. unfold encrypt_spec. rewrite D.
    intros Hnf. apply Himp. right. right. exact Hnf.
  Qed.

  Lemma stream_roundtrip_nonfull :
    forall (p : bytes),
      (N.of_nat (length p) < ctr_limit)%N ->
      (length p = 0 \/ Nat.modulo (length p) cs <> 0) ->
      let '(released, o, _) := decrypt_spec cs open_ (encrypt_spec cs seal p) in
      released = p /\ o = CleanEOF.
  Proof using cs cs_pos seal open_ aead_correct seal_len.
    intros p Hb Hnf.
    destruct (roundtrip_rel 0 p (or_introl eq_refl)) as [r [o [l [D Himp]]]]; [lia|].
    apply decrypt_spec_rel in D. unfold encrypt_spec. rewrite D.
    apply Himp. destruct Hnf as [H0|Hm]; [left; exact H0|right; left; exact Hm].
  Qed.
End Main.
