(** CryptoFacts2.v — further laws of the Gallina primitives of Crypto.v: the
    exact acceptance condition of the ChaCha20-Poly1305 AEAD (it opens exactly
    when the last 16 bytes are the Poly1305 tag of the rest), injectivity of
    sealing, the field operations of X25519 as arithmetic modulo 2^255 - 19,
    X25519 ignoring the top bit of the point and depending on the scalar only
    through its clamped value, and the block alignment of SHA-256 padding.
    Lemmas only. *)

From Age Require Import Base Prims Crypto CryptoFacts.
From Coq Require Import Lia ZifyN ZifyNat.
Local Open Scope N_scope.

Local Opaque chacha_block poly1305 chacha_xor aead_tag.

(** * Bytes *)

Lemma cf2_bytes_eqb_eq : forall a b : bytes, bytes_eqb a b = true <-> a = b.
Proof.
  induction a as [|x a IH]; intros [|y b]; cbn [bytes_eqb]; split; intros H;
    try reflexivity; try discriminate.
  - apply andb_true_iff in H. destruct H as [Hxy Hab].
    apply Byte.byte_dec_bl in Hxy. apply IH in Hab. subst. reflexivity.
  - injection H as -> ->. rewrite cf_byte_eqb_refl. cbn [andb]. apply IH. reflexivity.
Qed.

(** * The AEAD *)

Lemma chapoly_open_spec : forall k n c p,
  chapoly_open k n c = Some p <->
  (16 <= length c)%nat /\
  skipn (length c - 16) c = aead_tag k n (firstn (length c - 16) c) /\
  p = chacha_xor k n 1 (firstn (length c - 16) c).
Proof.
  intros k n c p. unfold chapoly_open. cbv zeta.
  destruct (Nat.ltb_spec (length c) 16) as [Hlt|Hge].
  - split; [discriminate|]. intros [Hl _]. lia.
  - destruct (bytes_eqb (skipn (length c - 16) c)
                        (aead_tag k n (firstn (length c - 16) c))) eqn:E.
    + apply cf2_bytes_eqb_eq in E. split.
      * intros H. injection H as <-. split; [exact Hge|]. split; [exact E|reflexivity].
      * intros [_ [_ Hp]]. rewrite Hp. reflexivity.
    + split; [discriminate|]. intros [_ [Ht _]].
      apply cf2_bytes_eqb_eq in Ht. rewrite Ht in E. discriminate.
Qed.

Lemma chapoly_open_wrong_tag : forall k n ct t,
  length t = 16%nat -> t <> aead_tag k n ct -> chapoly_open k n (ct ++ t) = None.
Proof.
  intros k n ct t Hlen Hne.
  destruct (chapoly_open k n (ct ++ t)) as [p|] eqn:E; [|reflexivity].
  exfalso. apply chapoly_open_spec in E. destruct E as [_ [Ht _]].
  rewrite app_length, Hlen in Ht.
  replace (length ct + 16 - 16)%nat with (length ct) in Ht by lia.
  rewrite cf_firstn_len_app, cf_skipn_len_app in Ht. exact (Hne Ht).
Qed.

Lemma chapoly_seal_injective : forall k n p1 p2,
  chapoly_seal k n p1 = chapoly_seal k n p2 -> p1 = p2.
Proof.
  intros k n p1 p2 H.
  pose proof (chapoly_open_seal k n p1) as H1.
  rewrite H, chapoly_open_seal in H1. injection H1 as H1. symmetry. exact H1.
Qed.

(** * The field of X25519 *)

Lemma fp_val : fp = (2 ^ 255 - 19)%N.
Proof. reflexivity. Qed.

Lemma cf2_fp_nz : fp <> 0.
Proof. unfold fp. discriminate. Qed.

Lemma cf2_fp_add_lt : fp + fp < 2 ^ 512.
Proof. vm_compute. reflexivity. Qed.

Lemma cf2_fp_mul_lt : fp * fp < 2 ^ 512.
Proof. vm_compute. reflexivity. Qed.

Lemma fred_lt : forall x, (x < 2 ^ 512)%N -> (fred x < fp)%N.
Proof.
  intros x Hx. rewrite fred_spec by exact Hx. apply N.mod_lt. exact cf2_fp_nz.
Qed.

Lemma fmul_spec : forall a b, (a < fp)%N -> (b < fp)%N -> fmul a b = ((a * b) mod fp)%N.
Proof.
  intros a b Ha Hb. unfold fmul. apply fred_spec.
  apply N.lt_trans with (m := fp * fp); [|exact cf2_fp_mul_lt].
  apply N.mul_lt_mono; assumption.
Qed.

Lemma fadd_spec : forall a b, (a < fp)%N -> (b < fp)%N -> fadd a b = ((a + b) mod fp)%N.
Proof.
  intros a b Ha Hb. unfold fadd. apply fred_spec.
  apply N.lt_trans with (m := fp + fp); [|exact cf2_fp_add_lt].
  apply N.add_lt_mono; assumption.
Qed.

Lemma fsub_spec : forall a b, (a < fp)%N -> (b < fp)%N ->
  fsub a b = ((a + fp - b) mod fp)%N.
Proof.
  intros a b Ha Hb. unfold fsub. apply fred_spec.
  apply N.le_lt_trans with (m := a + fp); [apply N.le_sub_l|].
  apply N.lt_trans with (m := fp + fp); [|exact cf2_fp_add_lt].
  apply N.add_lt_mono_r. exact Ha.
Qed.

Lemma fmul_lt : forall a b, (a < fp)%N -> (b < fp)%N -> (fmul a b < fp)%N.
Proof.
  intros a b Ha Hb. rewrite fmul_spec by assumption. apply N.mod_lt. exact cf2_fp_nz.
Qed.

Lemma fadd_lt : forall a b, (a < fp)%N -> (b < fp)%N -> (fadd a b < fp)%N.
Proof.
  intros a b Ha Hb. rewrite fadd_spec by assumption. apply N.mod_lt. exact cf2_fp_nz.
Qed.

Lemma fsub_lt : forall a b, (a < fp)%N -> (b < fp)%N -> (fsub a b < fp)%N.
Proof.
  intros a b Ha Hb. rewrite fsub_spec by assumption. apply N.mod_lt. exact cf2_fp_nz.
Qed.

(** * X25519: the scalar is used clamped, the top bit of the point is ignored *)

Lemma x25519_raw_clamp : forall s1 s2 p,
  clamp_scalar s1 = clamp_scalar s2 -> x25519_raw s1 p = x25519_raw s2 p.
Proof. intros s1 s2 p H. unfold x25519_raw. rewrite H. reflexivity. Qed.

Lemma x25519_raw_top_bit : forall s p1 p2,
  (N.land (le_val p1) m255 = N.land (le_val p2) m255) ->
  x25519_raw s p1 = x25519_raw s p2.
Proof. intros s p1 p2 H. unfold x25519_raw. rewrite H. reflexivity. Qed.

Lemma le_val_app : forall a b,
  le_val (a ++ b) = le_val a + 256 ^ N.of_nat (length a) * le_val b.
Proof.
  induction a as [|x a IH]; intros b.
  - cbn [app le_val length N.of_nat]. rewrite N.pow_0_r. lia.
  - cbn [app le_val length]. rewrite IH, Nat2N.inj_succ, N.pow_succ_r'.
    set (P := 256 ^ N.of_nat (length a)). ring.
Qed.

Lemma le_val_lt : forall a, le_val a < 256 ^ N.of_nat (length a).
Proof.
  induction a as [|x a IH].
  - cbn [le_val length N.of_nat]. rewrite N.pow_0_r. lia.
  - cbn [le_val length]. rewrite Nat2N.inj_succ, N.pow_succ_r'.
    pose proof (cf_b2n_lt x) as Hx.
    set (P := 256 ^ N.of_nat (length a)) in *. lia.
Qed.

Lemma cf2_split_last : forall (n : nat) (l : bytes) (d : byte),
  length l = S n -> l = firstn n l ++ [nth n l d].
Proof.
  induction n as [|n IH]; intros l d Hl.
  - destruct l as [|x [|y l]]; try discriminate. reflexivity.
  - destruct l as [|x l]; [discriminate|]. cbn [firstn nth app].
    f_equal. apply IH. cbn [length] in Hl. lia.
Qed.

Lemma cf2_land_127 : forall x, N.land x 127 = x mod 128.
Proof. intros x. change 127 with (N.ones 7). rewrite N.land_ones. reflexivity. Qed.

(** the value of a 32-byte string modulo 2^255 does not see bit 7 of the last
    byte *)
Lemma le_val_clear_top_bit : forall p, length p = 32%nat ->
  N.land (le_val p) m255 =
  N.land (le_val (firstn 31 p ++ [n2b (N.land (b2n (nth 31 p x00)) 127)])) m255.
Proof.
  intros p Hlen.
  rewrite (cf2_split_last 31 p x00 Hlen) at 1.
  rewrite !cf_land_m255, !le_val_app.
  assert (Hl : length (firstn 31 p) = 31%nat) by (rewrite firstn_length; lia).
  rewrite Hl. cbn [le_val]. rewrite !N.mul_0_r, !N.add_0_r.
  rewrite cf2_land_127.
  set (B := b2n (nth 31 p x00)).
  assert (H128 : 128 <> 0) by discriminate.
  pose proof (N.mod_lt B 128 H128) as Hr.
  rewrite cf_b2n_n2b by lia.
  set (A := le_val (firstn 31 p)).
  replace (2 ^ 255) with (256 ^ N.of_nat 31 * 128) by (vm_compute; reflexivity).
  set (K := 256 ^ N.of_nat 31).
  rewrite (N.div_mod B 128 H128) at 1.
  set (q := B / 128). set (r := B mod 128).
  replace (A + K * (128 * q + r)) with (A + K * r + q * (K * 128)) by ring.
  apply N.mod_add.
  unfold K. vm_compute. discriminate.
Qed.

Lemma x25519_go_top_bit : forall s p, length p = 32%nat ->
  x25519_go s p =
  x25519_go s (firstn 31 p ++ [n2b (N.land (b2n (nth 31 p x00)) 127)]).
Proof.
  intros s p Hlen. unfold x25519_go.
  assert (Hl : length (firstn 31 p ++ [n2b (N.land (b2n (nth 31 p x00)) 127)]) = 32%nat).
  { rewrite app_length, firstn_length. cbn [length]. lia. }
  rewrite Hl, Hlen.
  rewrite (x25519_raw_top_bit s p _ (le_val_clear_top_bit p Hlen)).
  reflexivity.
Qed.

(** * SHA-256 padding fills whole blocks *)

Lemma sha_pad_length : forall m, (length (sha_pad m) mod 64 = 0)%nat.
Proof.
  intros m. unfold sha_pad. cbv zeta.
  rewrite app_length. cbn [length].
  rewrite app_length, repeat_length, be_bytes'_length.
  set (l := length m).
  pose proof (Nat.div_mod (l + 9) 64) as Hd.
  pose proof (Nat.mod_upper_bound (l + 9) 64) as Hu.
  set (q := ((l + 9) / 64)%nat) in *. set (r := ((l + 9) mod 64)%nat) in *.
  assert (Hz : (((64 - r) mod 64 = 0 /\ r = 0) \/ ((64 - r) mod 64 = 64 - r /\ 0 < r))%nat).
  { destruct r as [|r'].
    - left. split; reflexivity.
    - right. split; [apply Nat.mod_small; lia|lia]. }
  destruct Hz as [[Hz Hr]|[Hz Hr]]; rewrite Hz.
  - replace (l + S (0 + 8))%nat with (q * 64)%nat by lia. apply Nat.mod_mul. lia.
  - replace (l + S (64 - r + 8))%nat with ((q + 1) * 64)%nat by lia. apply Nat.mod_mul. lia.
Qed.

Print Assumptions chapoly_open_spec.
Print Assumptions fmul_spec.
Print Assumptions x25519_raw_top_bit.
Print Assumptions x25519_go_top_bit.
Print Assumptions sha_pad_length.
