(** AgeIOFacts.v — the whole-file I/O layer: the Write calls of Header.Marshal
    (C05), sessions over destinations with fault plans and through the armor
    writer (C12a, C13a), Decrypt over sources with schedules and faults
    (C12a, C13a).  Lemmas only. *)

From Coq Require Import ZifyN ZifyNat ZifyBool.
From Age Require Import Base Base64 Format FormatIO IO Stream Armor Prims Recipients Age.
From Age Require Import Base64Facts FormatFacts StreamFacts StreamMachine ArmorFacts.

Ltac Zify.zify_post_hook ::= Z.div_mod_to_equations.

(** * The Write calls of Header.Marshal *)

Lemma aio_b64_raw_app : forall x y,
  length x mod 3 = 0 -> b64_enc_raw (x ++ y) = b64_enc_raw x ++ b64_enc_raw y.
Proof.
  induction x as [| a | a b | a b c l IH] using list_ind3; intros y H.
  - reflexivity.
  - cbn [length] in H. discriminate H.
  - cbn [length] in H. discriminate H.
  - cbn [app b64_enc_raw]. rewrite IH.
    + rewrite app_assoc. reflexivity.
    + cbn [length] in H. lia.
Qed.

Lemma aio_raw_interior : forall fuel col p acc,
  length p < fuel ->
  exists x y ws,
    p = x ++ y /\ length x mod 3 = 0 /\ length y < 3 /\
    raw_interior fuel col p acc = (ws, snd (wrap_chunk col (b64_enc_raw x)), y) /\
    concat ws = concat acc ++ fst (wrap_chunk col (b64_enc_raw x)).
Proof.
  induction fuel as [|f IH]; intros col p acc Hf; [lia|].
  cbn [raw_interior]. destruct (Nat.ltb (length p) 3) eqn:E.
  - apply Nat.ltb_lt in E. exists [], p, acc.
    cbn [b64_enc_raw wrap_chunk fst snd app]. rewrite app_nil_r.
    split; [reflexivity|]. split; [reflexivity|]. split; [exact E|].
    split; reflexivity.
  - apply Nat.ltb_ge in E.
    set (nn := if Nat.ltb (length p) b64_block
               then length p - Nat.modulo (length p) 3 else b64_block).
    assert (Hnn : nn <= length p /\ nn mod 3 = 0 /\ 0 < nn).
    { subst nn. destruct (Nat.ltb (length p) b64_block) eqn:E2;
        [apply Nat.ltb_lt in E2 | apply Nat.ltb_ge in E2]; unfold b64_block in *; lia. }
    destruct Hnn as (Hn1 & Hn2 & Hn3).
    destruct (wrap_chunk col (b64_enc_raw (firstn nn p))) as [o col'] eqn:Ew.
    destruct (IH col' (skipn nn p) (acc ++ [o])) as (x' & y' & ws & Hp & Hx' & Hy' & Hr & Hc).
    { rewrite skipn_length. lia. }
    assert (Hl : length (firstn nn p) = nn) by (rewrite firstn_length; lia).
    exists (firstn nn p ++ x'), y', ws.
    split; [rewrite <- app_assoc, <- Hp, firstn_skipn; reflexivity|].
    split; [rewrite app_length, Hl; lia|].
    split; [exact Hy'|].
    rewrite (aio_b64_raw_app (firstn nn p) x') by (rewrite Hl; exact Hn2).
    rewrite af_wrap_app, Ew. cbn [fst snd].
    split; [exact Hr|].
    rewrite Hc, concat_app. cbn [concat]. rewrite app_nil_r, <- app_assoc. reflexivity.
Qed.

Lemma aio_body_writes_concat : forall b,
  concat (body_writes b) = fst (wrap_chunk 0 (b64_enc_raw b)).
Proof.
  intros b. unfold body_writes.
  destruct (aio_raw_interior (S (length b)) 0 b [] ltac:(lia))
    as (x & y & ws & Hp & Hx & Hy & Hr & Hc).
  rewrite Hr. cbn [concat app] in Hc.
  rewrite Hp, (aio_b64_raw_app x y Hx), af_wrap_app. cbn [fst].
  destruct y as [|y0 y'].
  - cbn [b64_enc_raw wrap_chunk fst]. rewrite app_nil_r. exact Hc.
  - rewrite concat_app, Hc. cbn [concat]. rewrite app_nil_r. reflexivity.
Qed.

Lemma aio_wrap_split_body : forall n b, length b <= n ->
  fst (wrap_chunk 0 (b64_enc_raw b)) ++ [LF] =
  concat (map (fun l => line (b64_enc_raw l)) (split_body b)).
Proof.
  induction n as [|n IH]; intros b Hn.
  - destruct b; [|cbn [length] in Hn; lia]. reflexivity.
  - destruct (Nat.ltb (length b) bytes_per_line) eqn:Elt.
    + apply Nat.ltb_lt in Elt. rewrite split_body_short by exact Elt.
      cbn [map concat]. rewrite app_nil_r. unfold line.
      rewrite af_wrap_short; [reflexivity|].
      rewrite b64_enc_raw_length. unfold bytes_per_line, columns in *. lia.
    + apply Nat.ltb_ge in Elt.
      rewrite split_body_long by exact Elt. cbn [map concat].
      rewrite <- (firstn_skipn bytes_per_line b) at 1.
      assert (Hx : length (firstn bytes_per_line b) = 48)
        by (rewrite firstn_length; unfold bytes_per_line in *; lia).
      rewrite aio_b64_raw_app by (rewrite Hx; reflexivity).
      rewrite af_wrap_app.
      rewrite af_wrap_fill.
      * cbn [fst snd]. unfold line at 1. rewrite <- !app_assoc. f_equal. f_equal.
        apply IH. rewrite skipn_length. unfold bytes_per_line in *. lia.
      * intros E0. apply b64_enc_raw_nil in E0. rewrite E0 in Hx. discriminate Hx.
      * rewrite b64_enc_raw_length_48 by exact Hx. reflexivity.
Qed.

Lemma aio_stanza_writes_concat : forall s, concat (stanza_writes s) = marshal_stanza s.
Proof.
  intros s. unfold stanza_writes, marshal_stanza, marshal_args.
  rewrite !concat_app. cbn [concat]. rewrite !app_nil_r.
  rewrite aio_body_writes_concat.
  rewrite <- (aio_wrap_split_body (length (st_body s)) (st_body s) (le_n _)).
  reflexivity.
Qed.

Lemma header_writes_concat : forall h, concat (header_writes h) = marshal h.
Proof.
  intros h. unfold header_writes, header_writes_without_mac, marshal, marshal_without_mac.
  rewrite !concat_app. cbn [concat]. rewrite !app_nil_r.
  assert (Hs : forall l, concat (concat (map stanza_writes l)) = concat (map marshal_stanza l)).
  { induction l as [|s l IH]; [reflexivity|].
    cbn [map concat]. rewrite concat_app, IH, aio_stanza_writes_concat. reflexivity. }
  rewrite Hs, <- !app_assoc. reflexivity.
Qed.
