(** AgeIOFacts.v — the whole-file I/O layer: the Write calls of Header.Marshal
    (C05), sessions over destinations with fault plans and through the armor
    writer (C12a, C13a), Decrypt over sources with schedules and faults
    (C12a, C13a).  Lemmas only. *)

From Coq Require Import ZifyN ZifyNat ZifyBool.
From Age Require Import Base Base64 Format FormatIO IO Stream Armor Prims Recipients Age.
From Age Require Import Base64Facts FormatFacts StreamFacts StreamMachine ArmorFacts.

Ltac Zify.zify_post_hook ::= Z.div_mod_to_equations.

(** * The Write calls of Header.Marshal *)

Lemma aio_b64_raw_app : forall x y,
  length x mod 3 = 0 -> b64_enc_raw (x ++ y) = b64_enc_raw x ++ b64_enc_raw y.
Proof.
  induction x as [| a | a b | a b c l IH] using list_ind3; intros y H.
  - reflexivity.
  - cbn [length] in H. discriminate H.
  - cbn [length] in H. discriminate H.
  - cbn [app b64_enc_raw]. rewrite IH.
    + rewrite app_assoc. reflexivity.
    + cbn [length] in H. lia.
Qed.

Lemma aio_raw_interior : forall fuel col p acc,
  length p < fuel ->
  exists x y ws,
    p = x ++ y /\ length x mod 3 = 0 /\ length y < 3 /\
    raw_interior fuel col p acc = (ws, snd (wrap_chunk col (b64_enc_raw x)), y) /\
    concat ws = concat acc ++ fst (wrap_chunk col (b64_enc_raw x)).
Proof.
  induction fuel as [|f IH]; intros col p acc Hf; [lia|].
  cbn [raw_interior]. destruct (Nat.ltb (length p) 3) eqn:E.
  - apply Nat.ltb_lt in E. exists [], p, acc.
    cbn [b64_enc_raw wrap_chunk fst snd app]. rewrite app_nil_r.
    split; [reflexivity|]. split; [reflexivity|]. split; [exact E|].
    split; reflexivity.
  - apply Nat.ltb_ge in E.
    set (nn := if Nat.ltb (length p) b64_block
               then length p - Nat.modulo (length p) 3 else b64_block).
    assert (Hnn : nn <= length p /\ nn mod 3 = 0 /\ 0 < nn).
    { subst nn. destruct (Nat.ltb (length p) b64_block) eqn:E2;
        [apply Nat.ltb_lt in E2 | apply Nat.ltb_ge in E2]; unfold b64_block in *; lia. }
    destruct Hnn as (Hn1 & Hn2 & Hn3).
    destruct (wrap_chunk col (b64_enc_raw (firstn nn p))) as [o col'] eqn:Ew.
    destruct (IH col' (skipn nn p) (acc ++ [o])) as (x' & y' & ws & Hp & Hx' & Hy' & Hr & Hc).
    { rewrite skipn_length. lia. }
    assert (Hl : length (firstn nn p) = nn) by (rewrite firstn_length; lia).
    exists (firstn nn p ++ x'), y', ws.
    split; [rewrite <- app_assoc, <- Hp, firstn_skipn; reflexivity|].
    split; [rewrite app_length, Hl; lia|].
    split; [exact Hy'|].
    rewrite (aio_b64_raw_app (firstn nn p) x') by (rewrite Hl; exact Hn2).
    rewrite af_wrap_app, Ew. cbn [fst snd].
    split; [exact Hr|].
    rewrite Hc, concat_app. cbn [concat]. rewrite app_nil_r, <- app_assoc. reflexivity.
Qed.

Lemma aio_body_writes_concat : forall b,
  concat (body_writes b) = fst (wrap_chunk 0 (b64_enc_raw b)).
Proof.
  intros b. unfold body_writes.
  destruct (aio_raw_interior (S (length b)) 0 b [] ltac:(lia))
    as (x & y & ws & Hp & Hx & Hy & Hr & Hc).
  rewrite Hr. cbn [concat app] in Hc.
  rewrite Hp, (aio_b64_raw_app x y Hx), af_wrap_app. cbn [fst].
  destruct y as [|y0 y'].
  - cbn [b64_enc_raw wrap_chunk fst]. rewrite app_nil_r. exact Hc.
  - rewrite concat_app, Hc. cbn [concat]. rewrite app_nil_r. reflexivity.
Qed.

Lemma aio_wrap_split_body : forall n b, length b <= n ->
  fst (wrap_chunk 0 (b64_enc_raw b)) ++ [LF] =
  concat (map (fun l => line (b64_enc_raw l)) (split_body b)).
Proof.
  induction n as [|n IH]; intros b Hn.
  - destruct b; [|cbn [length] in Hn; lia]. reflexivity.
  - destruct (Nat.ltb (length b) bytes_per_line) eqn:Elt.
    + apply Nat.ltb_lt in Elt. rewrite split_body_short by exact Elt.
      cbn [map concat]. rewrite app_nil_r. unfold line.
      rewrite af_wrap_short; [reflexivity|].
      rewrite b64_enc_raw_length. unfold bytes_per_line, columns in *. lia.
    + apply Nat.ltb_ge in Elt.
      rewrite split_body_long by exact Elt. cbn [map concat].
      rewrite <- (firstn_skipn bytes_per_line b) at 1.
      assert (Hx : length (firstn bytes_per_line b) = 48)
        by (rewrite firstn_length; unfold bytes_per_line in *; lia).
      rewrite aio_b64_raw_app by (rewrite Hx; reflexivity).
      rewrite af_wrap_app.
      rewrite af_wrap_fill.
      * cbn [fst snd]. unfold line at 1. rewrite <- !app_assoc. f_equal. f_equal.
        apply IH. rewrite skipn_length. unfold bytes_per_line in *. lia.
      * intros E0. apply b64_enc_raw_nil in E0. rewrite E0 in Hx. discriminate Hx.
      * rewrite b64_enc_raw_length_48 by exact Hx. reflexivity.
Qed.

Lemma aio_stanza_writes_concat : forall s, concat (stanza_writes s) = marshal_stanza s.
Proof.
  intros s. unfold stanza_writes, marshal_stanza, marshal_args.
  rewrite !concat_app. cbn [concat]. rewrite !app_nil_r.
  rewrite aio_body_writes_concat.
  rewrite <- (aio_wrap_split_body (length (st_body s)) (st_body s) (le_n _)).
  reflexivity.
Qed.

Lemma header_writes_concat : forall h, concat (header_writes h) = marshal h.
Proof.
  intros h. unfold header_writes, header_writes_without_mac, marshal, marshal_without_mac.
  rewrite !concat_app. cbn [concat]. rewrite !app_nil_r.
  assert (Hs : forall l, concat (concat (map stanza_writes l)) = concat (map marshal_stanza l)).
  { induction l as [|s l IH]; [reflexivity|].
    cbn [map concat]. rewrite concat_app, IH, aio_stanza_writes_concat. reflexivity. }
  rewrite Hs, <- !app_assoc. reflexivity.
Qed.

(** * Stream writers over two related downstreams

    If every successful call of the first downstream is matched by a
    successful call of the second one (relation [R] preserved), then a run of
    the stream writer in which every operation reported success is the same run
    over the second downstream. *)

Lemma aio_Forall_repeat_true : forall n, Forall (fun b : bool => b = true) (repeat true n).
Proof. induction n as [|n IH]; cbn [repeat]; constructor; [reflexivity|exact IH]. Qed.

Section WriterSim.
  Variable cs : nat.
  Variable seal : bytes -> bytes -> bytes.
  Variables D1 D2 : Type.
  Variable dw1 : D1 -> bytes -> D1 * bool.
  Variable dw2 : D2 -> bytes -> D2 * bool.
  Variable R : D1 -> D2 -> Prop.
  Hypothesis step : forall d1 d2 p d1', R d1 d2 -> dw1 d1 p = (d1', true) ->
    exists d2', dw2 d2 p = (d2', true) /\ R d1' d2'.

  Lemma aio_sim_flush : forall last w d1 d2 w' d1', R d1 d2 ->
    w_flush cs seal D1 dw1 last w d1 = Ok (w', d1', true) ->
    exists d2', w_flush cs seal D2 dw2 last w d2 = Ok (w', d2', true) /\ R d1' d2'.
  Proof using step.
    intros last w d1 d2 w' d1' HR H. unfold w_flush in *.
    destruct (negb last && negb (Nat.eqb (length (w_buf w)) cs)); [discriminate H|].
    destruct (dw1 d1 (seal (nonce_of (w_ctr w) last) (w_buf w))) as [d1a ok] eqn:E.
    destruct (N.eqb (w_ctr w + 1) ctr_limit); [discriminate H|].
    injection H as <- <- ->.
    destruct (step _ d2 _ _ HR E) as (d2' & E2 & HR'). rewrite E2.
    exists d2'. split; [reflexivity|exact HR'].
  Qed.

  Lemma aio_sim_loop : forall fuel w d1 d2 p w' d1', R d1 d2 ->
    w_loop cs seal D1 dw1 fuel w d1 p = Ok (w', d1', true) ->
    exists d2', w_loop cs seal D2 dw2 fuel w d2 p = Ok (w', d2', true) /\ R d1' d2'.
  Proof using step.
    induction fuel as [|f IH]; intros w d1 d2 p w' d1' HR H.
    - destruct p as [|x p0]; cbn [w_loop] in *; [|discriminate H].
      injection H as <- <-. exists d2. split; [reflexivity|exact HR].
    - destruct p as [|x p0]; cbn [w_loop] in *.
      { injection H as <- <-. exists d2. split; [reflexivity|exact HR]. }
      destruct (skipn (cs - length (w_buf w)) (x :: p0)) as [|y r].
      + injection H as <- <-. exists d2. split; [reflexivity|exact HR].
      + cbn [w_buf] in *.
        destruct (Nat.eqb (length (w_buf w ++ firstn (cs - length (w_buf w)) (x :: p0))) cs).
        * destruct (w_flush cs seal D1 dw1 false
                      (mkW (w_buf w ++ firstn (cs - length (w_buf w)) (x :: p0)) (w_ctr w) (w_st w)) d1)
            as [[[w2 d1a] ok]|c|n] eqn:Ef; cbn [bind] in H; try discriminate H.
          destruct ok; [|discriminate H].
          destruct (aio_sim_flush _ _ _ d2 _ _ HR Ef) as (d2a & Ef2 & HRa).
          rewrite Ef2. cbn [bind]. exact (IH _ _ _ _ _ _ HRa H).
        * exact (IH _ _ _ _ _ _ HR H).
  Qed.

  Lemma aio_sim_write : forall w d1 d2 p w' d1' n, R d1 d2 ->
    w_write cs seal D1 dw1 w d1 p = Ok (w', d1', Some n) ->
    exists d2', w_write cs seal D2 dw2 w d2 p = Ok (w', d2', Some n) /\ R d1' d2'.
  Proof using step.
    intros w d1 d2 p w' d1' n HR H. unfold w_write in *.
    destruct (w_st w); try discriminate H.
    destruct p as [|x p0].
    { injection H as <- <- <-. exists d2. split; [reflexivity|exact HR]. }
    destruct (w_loop cs seal D1 dw1 (S (length (x :: p0))) w d1 (x :: p0))
      as [[[w1 d1a] ok]|c|k] eqn:El; cbn [bind] in H; try discriminate H.
    destruct ok; [|discriminate H]. injection H as <- <- <-.
    destruct (aio_sim_loop _ _ _ d2 _ _ _ HR El) as (d2a & El2 & HRa).
    rewrite El2. cbn [bind]. exists d2a. split; [reflexivity|exact HRa].
  Qed.

  Lemma aio_sim_close : forall w d1 d2 w' d1', R d1 d2 ->
    w_close cs seal D1 dw1 w d1 = Ok (w', d1', true) ->
    exists d2', w_close cs seal D2 dw2 w d2 = Ok (w', d2', true) /\ R d1' d2'.
  Proof using step.
    intros w d1 d2 w' d1' HR H. unfold w_close in *.
    destruct (w_st w); try discriminate H.
    destruct (w_flush cs seal D1 dw1 true w d1) as [[[w1 d1a] ok]|c|k] eqn:Ef;
      cbn [bind] in H; try discriminate H.
    destruct ok; [|discriminate H]. injection H as <- <-.
    destruct (aio_sim_flush _ _ _ d2 _ _ HR Ef) as (d2a & Ef2 & HRa).
    rewrite Ef2. cbn [bind]. exists d2a. split; [reflexivity|exact HRa].
  Qed.

  Lemma aio_run_acc : forall ws w d1 acc w' d1' oks,
    w_run cs seal D1 dw1 w d1 ws acc = Ok (w', d1', oks) -> exists l, oks = acc ++ l.
  Proof using Type.
    induction ws as [|p rest IH]; intros w d1 acc w' d1' oks H; cbn [w_run] in H.
    - destruct (w_close cs seal D1 dw1 w d1) as [[[w1 d1a] ok]|c|k]; cbn [bind] in H;
        try discriminate H.
      injection H as _ _ <-. eexists; reflexivity.
    - destruct (w_write cs seal D1 dw1 w d1 p) as [[[w1 d1a] r]|c|k]; cbn [bind] in H;
        try discriminate H.
      destruct (IH _ _ _ _ _ _ H) as (l & ->). rewrite <- app_assoc. eexists; reflexivity.
  Qed.

  Lemma aio_sim_run : forall ws w d1 d2 acc w' d1' oks, R d1 d2 ->
    w_run cs seal D1 dw1 w d1 ws acc = Ok (w', d1', oks) ->
    Forall (fun b => b = true) oks ->
    exists d2', w_run cs seal D2 dw2 w d2 ws acc = Ok (w', d2', oks) /\ R d1' d2'.
  Proof using step.
    induction ws as [|p rest IH]; intros w d1 d2 acc w' d1' oks HR H Hall; cbn [w_run] in *.
    - destruct (w_close cs seal D1 dw1 w d1) as [[[w1 d1a] ok]|c|k] eqn:Ec; cbn [bind] in H;
        try discriminate H.
      injection H as <- <- <-.
      apply Forall_app in Hall. destruct Hall as [_ Hl].
      inversion Hl as [|b l Hb _]; subst.
      destruct (aio_sim_close _ _ d2 _ _ HR Ec) as (d2a & Ec2 & HRa).
      rewrite Ec2. cbn [bind]. exists d2a. split; [reflexivity|exact HRa].
    - destruct (w_write cs seal D1 dw1 w d1 p) as [[[w1 d1a] r]|c|k] eqn:Ew; cbn [bind] in H;
        try discriminate H.
      destruct (aio_run_acc _ _ _ _ _ _ _ H) as (l & Hl).
      assert (Hr : exists n, r = Some n).
      { rewrite Hl in Hall. apply Forall_app in Hall. destruct Hall as [Ha _].
        apply Forall_app in Ha. destruct Ha as [_ Ha].
        inversion Ha as [|b l' Hb _]; subst.
        destruct r as [n|]; [exists n; reflexivity|discriminate Hb]. }
      destruct Hr as (n & ->).
      destruct (aio_sim_write _ _ d2 _ _ _ _ HR Ew) as (d2a & Ew2 & HRa).
      rewrite Ew2. cbn [bind]. exact (IH _ _ _ _ _ _ _ HRa H Hall).
  Qed.

  Lemma aio_sim_dwrites : forall ps d1 d2 d1', R d1 d2 ->
    dwrites D1 dw1 d1 ps = (d1', true) ->
    exists d2', dwrites D2 dw2 d2 ps = (d2', true) /\ R d1' d2'.
  Proof using step.
    induction ps as [|p ps IH]; intros d1 d2 d1' HR H; cbn [dwrites] in *.
    - injection H as <-. exists d2. split; [reflexivity|exact HR].
    - destruct (dw1 d1 p) as [d1a ok] eqn:E. destruct ok; [|discriminate H].
      destruct (step _ d2 _ _ HR E) as (d2a & E2 & HRa). rewrite E2.
      exact (IH _ _ _ HRa H).
  Qed.
End WriterSim.

Local Opaque armor_header armor_footer.

(** * The armor writer as a downstream of the stream writer *)

(** all-accepting plain destination vs armor writer over the all-accepting
    destination: the armor writer has been handed exactly [T] *)
Definition aio_ainv (T : bytes) (ad : awstate * bytes) : Prop :=
  (fst ad = aw_init /\ snd ad = [] /\ T = []) \/ af_inv (fst ad) (snd ad) T.

Lemma aio_ainv_step : forall (T : bytes) (ad : awstate * bytes) (p T' : bytes),
  aio_ainv T ad -> (T ++ p, true) = (T', true) ->
  exists ad', armored_dwrite bytes af_W ad p = (ad', true) /\ aio_ainv T' ad'.
Proof.
  intros T [a d] p T' Hinv HT. injection HT as <-.
  assert (Hstart : exists a' d', aw_write bytes af_W a d p = (a', d', true) /\ af_inv a' d' (T ++ p)).
  { destruct Hinv as [(Ha & Hd & ->)|Hinv]; cbn [fst snd] in *.
    - subst a d.
      destruct (af_write_inv (mkAW true false [] false 0) (armor_header ++ [LF]) [] p af_inv_a0)
        as (a' & d' & Hw & Hi).
      exists a', d'. split; [|exact Hi]. rewrite <- Hw. reflexivity.
    - exact (af_write_inv a d T p Hinv). }
  destruct Hstart as (a' & d' & Hw & Hi).
  exists (a', d'). unfold armored_dwrite. cbn [fst snd]. rewrite Hw.
  split; [reflexivity|]. right. exact Hi.
Qed.

Lemma aio_ainv_close : forall T a d, aio_ainv T (a, d) ->
  exists a', aw_close bytes af_W a d = (a', armor_bytes T, true).
Proof.
  intros T a d [(Ha & Hd & ->)|Hinv]; cbn [fst snd] in *.
  - subst a d. pose proof (af_run_init [] []) as Hr. cbn [aw_run] in Hr.
    destruct (af_close_inv (mkAW true false [] false 0) (armor_header ++ [LF]) [] af_inv_a0)
      as (a' & Hc).
    rewrite Hc in Hr. destruct (aw_close bytes af_W aw_init []) as [[a1 d1] ok1].
    injection Hr as -> -> ->. exists a'. reflexivity.
  - exact (af_close_inv a d T Hinv).
Qed.

(** armor writer over a sink vs armor writer over the all-accepting
    destination: no call failed so far, same bytes *)
Definition aio_sinv (d1 : awstate * sink) (d2 : awstate * bytes) : Prop :=
  fst d2 = fst d1 /\ snd d2 = k_acc (snd d1) /\ k_fails (snd d1) = 0.

Lemma aio_sinv_step : forall (d1 : awstate * sink) (d2 : awstate * bytes) (p : bytes)
                             (d1' : awstate * sink),
  aio_sinv d1 d2 -> armored_dwrite sink sink_write d1 p = (d1', true) ->
  exists d2', armored_dwrite bytes af_W d2 p = (d2', true) /\ aio_sinv d1' d2'.
Proof.
  intros [a k] [a2 b] p d1' (Ha & Hb & Hf) H. cbn [fst snd] in *. subst a2 b.
  unfold armored_dwrite in *. cbn [fst snd] in *.
  destruct (aw_write sink sink_write a k p) as [[a' k'] ok] eqn:E.
  injection H as <- ->.
  destruct (af_sim_write _ _ _ _ _ E) as [E2 F]. rewrite E2.
  exists (a', k_acc k'). split; [reflexivity|].
  unfold aio_sinv. cbn [fst snd]. repeat split. congruence.
Qed.

(** plain sink vs all-accepting destination *)
Definition aio_kinv (k : sink) (b : bytes) : Prop := b = k_acc k /\ k_fails k = 0.

Lemma aio_kinv_step : forall (k : sink) (b p : bytes) (k' : sink),
  aio_kinv k b -> sink_write k p = (k', true) ->
  exists b', (b ++ p, true) = (b', true) /\ aio_kinv k' b'.
Proof.
  intros k b p k' [-> Hf] H. apply af_sink_write_true in H. destruct H as [Ha Hf'].
  exists (k_acc k ++ p). split; [reflexivity|]. split; [symmetry; exact Ha|congruence].
Qed.

(** * Sessions *)

Notation aio_ad0 := (@pair awstate bytes aw_init (@nil byte)).

Section WithPrims.
  Variable P : Prims.

  Lemma aio_wrap_no_panic : forall r fk tape n, wrap P r fk tape <> Panic n.
  Proof.
    intros r fk tape n. destruct r; cbn [wrap]; unfold wrap_x25519_like;
      repeat match goal with |- context [match ?x with _ => _ end] => destruct x end;
      discriminate.
  Qed.

  Lemma aio_wrap_all_no_panic : forall rs fk tape labels acc n,
    wrap_all P rs fk tape labels acc <> Panic n.
  Proof.
    induction rs as [|r rs IH]; intros fk tape labels acc n; cbn [wrap_all]; [discriminate|].
    destruct (wrap P r fk tape) as [[[st l] tape']|c|k] eqn:E.
    - destruct labels as [l0|]; [|apply IH].
      destruct (labels_eqb l0 (sort_labels l)); [apply IH|discriminate].
    - destruct c; discriminate.
    - exfalso. exact (aio_wrap_no_panic _ _ _ _ E).
  Qed.

  (** what a successful Encrypt did *)
  Lemma aio_open_plan : forall (D : Type) (dw : D -> bytes -> D * bool) rs tape d pl d' x,
    encrypt_open P D dw rs tape d = (Ok (pl, d'), x) ->
    plan_encrypt P rs tape = Ok pl /\ x = d' /\
    exists d1, dwrites D dw d (header_writes (ep_header pl)) = (d1, true) /\
               dw d1 (ep_nonce pl) = (d', true).
  Proof.
    intros D dw rs tape d pl d' x H. unfold encrypt_open in H. unfold plan_encrypt.
    destruct rs as [|r rs']; [discriminate H|].
    destruct (take file_key_size tape) as [[fk tape1]|]; [|discriminate H].
    destruct (wrap_all P (r :: rs') fk tape1 None []) as [[stanzas tape2]|c|n];
      try discriminate H.
    cbn [bind].
    destruct (dwrites D dw d (header_writes (mkHeader stanzas (header_mac P fk stanzas))))
      as [d1 ok1] eqn:E1.
    destruct ok1; cbn [negb] in H; [|discriminate H].
    destruct (take stream_nonce_size tape2) as [[nonce tape3]|]; [|discriminate H].
    destruct (dw d1 nonce) as [d2 ok2] eqn:E2.
    destruct ok2; cbn [negb] in H; [|discriminate H].
    injection H as <- <- <-. cbn [ep_header ep_nonce].
    split; [reflexivity|]. split; [reflexivity|]. exists d1. split; assumption.
  Qed.

  Lemma aio_plan_open : forall (D : Type) (dw : D -> bytes -> D * bool) rs tape d pl d1 d',
    plan_encrypt P rs tape = Ok pl ->
    dwrites D dw d (header_writes (ep_header pl)) = (d1, true) ->
    dw d1 (ep_nonce pl) = (d', true) ->
    encrypt_open P D dw rs tape d = (Ok (pl, d'), d').
  Proof.
    intros D dw rs tape d pl d1 d' Hp Hd Hn. unfold plan_encrypt in Hp. unfold encrypt_open.
    destruct rs as [|r rs']; [discriminate Hp|].
    destruct (take file_key_size tape) as [[fk tape1]|]; [|discriminate Hp].
    destruct (wrap_all P (r :: rs') fk tape1 None []) as [[stanzas tape2]|c|n];
      cbn [bind] in Hp; try discriminate Hp.
    destruct (take stream_nonce_size tape2) as [[nonce tape3]|]; [|discriminate Hp].
    injection Hp as <-. cbn [ep_header ep_nonce] in *.
    rewrite Hd. cbn [negb]. rewrite Hn. reflexivity.
  Qed.

  Lemma aio_open_no_panic : forall (D : Type) (dw : D -> bytes -> D * bool) rs tape d n x,
    encrypt_open P D dw rs tape d <> (Panic n, x).
  Proof.
    intros D dw rs tape d n x H. unfold encrypt_open in H.
    destruct rs as [|r rs']; [discriminate H|].
    destruct (take file_key_size tape) as [[fk tape1]|]; [|discriminate H].
    destruct (wrap_all P (r :: rs') fk tape1 None []) as [[stanzas tape2]|c|k] eqn:Ew;
      try discriminate H.
    - destruct (dwrites D dw d (header_writes (mkHeader stanzas (header_mac P fk stanzas))))
        as [d1 ok1].
      destruct ok1; cbn [negb] in H; [|discriminate H].
      destruct (take stream_nonce_size tape2) as [[nonce tape3]|]; [|discriminate H].
      destruct (dw d1 nonce) as [d2 ok2]. destruct ok2; discriminate H.
    - exact (aio_wrap_all_no_panic _ _ _ _ _ _ Ew).
  Qed.

  Lemma aio_session_ok_plan : forall (D : Type) (dw : D -> bytes -> D * bool) cs rs tape d ws d' oks,
    encrypt_session P D dw cs rs tape d ws = Ok (d', true, oks) ->
    exists pl, plan_encrypt P rs tape = Ok pl.
  Proof.
    intros D dw cs rs tape d ws d' oks H. unfold encrypt_session in H.
    destruct (encrypt_open P D dw rs tape d) as [[[pl d1]|c|n] x] eqn:E; try discriminate H.
    exists pl. exact (proj1 (aio_open_plan _ _ _ _ _ _ _ _ E)).
  Qed.

  Section SessionSim.
    Variables D1 D2 : Type.
    Variable dw1 : D1 -> bytes -> D1 * bool.
    Variable dw2 : D2 -> bytes -> D2 * bool.
    Variable R : D1 -> D2 -> Prop.
    Hypothesis step : forall d1 d2 p d1', R d1 d2 -> dw1 d1 p = (d1', true) ->
      exists d2', dw2 d2 p = (d2', true) /\ R d1' d2'.

    Lemma aio_sim_session : forall cs rs tape d1 d2 ws d1' oks, R d1 d2 ->
      encrypt_session P D1 dw1 cs rs tape d1 ws = Ok (d1', true, oks) ->
      Forall (fun b => b = true) oks ->
      exists d2', encrypt_session P D2 dw2 cs rs tape d2 ws = Ok (d2', true, oks) /\ R d1' d2'.
    Proof using step.
      intros cs rs tape d1 d2 ws d1' oks HR H Hall. unfold encrypt_session in *.
      destruct (encrypt_open P D1 dw1 rs tape d1) as [[[pl d1a]|c|n] x] eqn:E1;
        try discriminate H.
      destruct (aio_open_plan _ _ _ _ _ _ _ _ E1) as (Hp & _ & d1h & Hh & Hn).
      destruct (aio_sim_dwrites D1 D2 dw1 dw2 R step _ _ d2 _ HR Hh) as (d2h & Hh2 & HRh).
      destruct (step _ _ _ _ HRh Hn) as (d2a & Hn2 & HRa).
      rewrite (aio_plan_open _ _ _ _ _ _ _ _ Hp Hh2 Hn2).
      destruct (w_run cs (aead_seal P (stream_key P (ep_file_key pl) (ep_nonce pl))) D1 dw1
                      w_init d1a ws []) as [[[w d1b] oks']|c|n] eqn:Er;
        cbn [bind] in H; try discriminate H.
      injection H as <- <-.
      destruct (aio_sim_run _ _ D1 D2 dw1 dw2 R step _ _ _ d2a _ _ _ _ HRa Er Hall)
        as (d2b & Er2 & HRb).
      rewrite Er2. cbn [bind]. exists d2b. split; [reflexivity|exact HRb].
    Qed.
  End SessionSim.

  Lemma aio_dwrites_W : forall (ps : list bytes) (d : bytes),
    dwrites bytes af_W d ps = (d ++ concat ps, true).
  Proof.
    induction ps as [|p ps IH]; intros d; cbn [dwrites concat].
    - rewrite app_nil_r. reflexivity.
    - rewrite IH, <- app_assoc. reflexivity.
  Qed.

  (** ** C05: a session into the all-accepting destination *)
  Lemma session_bytes :
    forall (cs : nat) (rs : list recipient) (tape : bytes) (pl : enc_plan) (ws : list bytes),
      (0 < cs)%nat ->
      plan_encrypt P rs tape = Ok pl ->
      (N.of_nat (length (concat ws)) < ctr_limit)%N ->
      encrypt_session P bytes (fun d p => (d ++ p, true)) cs rs tape [] ws
      = Ok (file_bytes P cs pl (concat ws), true, repeat true (S (length ws))).
  Proof.
    intros cs rs tape pl ws Hcs Hp Hlim. unfold encrypt_session.
    rewrite (aio_plan_open bytes af_W rs tape [] pl _ _ Hp
               (aio_dwrites_W (header_writes (ep_header pl)) []) eq_refl).
    destruct (write_seg_indep cs Hcs
                (aead_seal P (stream_key P (ep_file_key pl) (ep_nonce pl))) ws
                (([] ++ concat (header_writes (ep_header pl))) ++ ep_nonce pl) Hlim) as (w & Hr).
    rewrite Hr. cbn [bind]. unfold file_bytes.
    rewrite header_writes_concat. cbn [app]. rewrite <- app_assoc. reflexivity.
  Qed.

  (** ** C12a: the same through the armor writer *)
  Lemma aio_armored_bytes_session :
    forall (cs : nat) (rs : list recipient) (tape : bytes) (pl : enc_plan) (ws : list bytes),
      (0 < cs)%nat ->
      plan_encrypt P rs tape = Ok pl ->
      (N.of_nat (length (concat ws)) < ctr_limit)%N ->
      exists ad,
        encrypt_session P (awstate * bytes) (armored_dwrite bytes af_W) cs rs tape aio_ad0 ws
        = Ok (ad, true, repeat true (S (length ws))) /\
        aio_ainv (file_bytes P cs pl (concat ws)) ad.
  Proof.
    intros cs rs tape pl ws Hcs Hp Hlim.
    apply (aio_sim_session bytes (awstate * bytes) af_W (armored_dwrite bytes af_W)
             aio_ainv aio_ainv_step cs rs tape [] aio_ad0 ws).
    - left. repeat split.
    - exact (session_bytes cs rs tape pl ws Hcs Hp Hlim).
    - apply aio_Forall_repeat_true.
  Qed.

  Lemma armored_session_bytes :
    forall (cs : nat) (rs : list recipient) (tape : bytes) (pl : enc_plan) (ws : list bytes),
      (0 < cs)%nat ->
      plan_encrypt P rs tape = Ok pl ->
      (N.of_nat (length (concat ws)) < ctr_limit)%N ->
      armored_session P bytes (fun d p => (d ++ p, true)) cs rs tape [] ws
      = Ok (armor_bytes (file_bytes P cs pl (concat ws)), true, repeat true (S (length ws)), true).
  Proof.
    intros cs rs tape pl ws Hcs Hp Hlim. unfold armored_session.
    destruct (aio_armored_bytes_session cs rs tape pl ws Hcs Hp Hlim) as ([a d] & Hs & Hinv).
    rewrite Hs. cbn [bind fst snd].
    destruct (aio_ainv_close _ _ _ Hinv) as (a' & Hc). rewrite Hc. reflexivity.
  Qed.

  (** ** C13a: destinations with fault plans *)
  Lemma session_write_faults :
    forall (cs : nat) (rs : list recipient) (tape : bytes) (ws : list bytes) (plan : list bool)
           (k : sink) (eok : bool) (oks : list bool),
      (0 < cs)%nat ->
      (N.of_nat (length (concat ws)) < ctr_limit)%N ->
      encrypt_session P sink sink_write cs rs tape (empty_sink plan) ws = Ok (k, eok, oks) ->
      eok = true -> Forall (fun b => b = true) oks ->
      k_fails k = 0%nat /\
      exists pl, plan_encrypt P rs tape = Ok pl /\ k_acc k = file_bytes P cs pl (concat ws).
  Proof.
    intros cs rs tape ws plan k eok oks Hcs Hlim H -> Hall.
    destruct (aio_session_ok_plan _ _ _ _ _ _ _ _ _ H) as (pl & Hp).
    destruct (aio_sim_session sink bytes sink_write af_W aio_kinv aio_kinv_step
                cs rs tape (empty_sink plan) [] ws k oks) as (b & Hs & Hb & Hf);
      [split; reflexivity|exact H|exact Hall|].
    rewrite (session_bytes cs rs tape pl ws Hcs Hp Hlim) in Hs. injection Hs as <- _.
    split; [exact Hf|]. exists pl. split; [exact Hp|symmetry; exact Hb].
  Qed.

  Lemma armored_session_write_faults :
    forall (cs : nat) (rs : list recipient) (tape : bytes) (ws : list bytes) (plan : list bool)
           (k : sink) (eok cok : bool) (oks : list bool),
      (0 < cs)%nat ->
      (N.of_nat (length (concat ws)) < ctr_limit)%N ->
      armored_session P sink sink_write cs rs tape (empty_sink plan) ws = Ok (k, eok, oks, cok) ->
      eok = true -> Forall (fun b => b = true) oks -> cok = true ->
      k_fails k = 0%nat /\
      exists pl, plan_encrypt P rs tape = Ok pl /\
                 k_acc k = armor_bytes (file_bytes P cs pl (concat ws)).
  Proof.
    intros cs rs tape ws plan k eok cok oks Hcs Hlim H Heok Hall Hcok. subst eok cok.
    unfold armored_session in H.
    destruct (encrypt_session P (awstate * sink) (armored_dwrite sink sink_write) cs rs tape
                (aw_init, empty_sink plan) ws) as [[[ad eok1] oks']|c|n] eqn:Es;
      cbn [bind] in H; try discriminate H.
    destruct (aw_close sink sink_write (fst ad) (snd ad)) as [[a' k'] cok1] eqn:Ec.
    injection H as Hk He Ho Hc. subst k' eok1 oks' cok1.
    destruct (aio_session_ok_plan _ _ _ _ _ _ _ _ _ Es) as (pl & Hp).
    destruct (aio_sim_session (awstate * sink) (awstate * bytes)
                (armored_dwrite sink sink_write) (armored_dwrite bytes af_W)
                aio_sinv aio_sinv_step
                cs rs tape (aw_init, empty_sink plan) aio_ad0 ws ad oks)
      as (d2 & Hs & Ha & Hb & Hf); [repeat split|exact Es|exact Hall|].
    destruct (aio_armored_bytes_session cs rs tape pl ws Hcs Hp Hlim) as (d2' & Hs' & Hinv).
    rewrite Hs' in Hs. injection Hs as -> _.
    destruct d2 as [a2 b2]. destruct ad as [a k0]. cbn [fst snd] in *. subst a2 b2.
    destruct (aio_ainv_close _ _ _ Hinv) as (a'' & Hc).
    destruct (af_sim_close _ _ _ _ Ec) as [Hc2 Hf2].
    rewrite Hc in Hc2. injection Hc2 as _ Hacc.
    split; [congruence|]. exists pl. split; [exact Hp|symmetry; exact Hacc].
  Qed.

  Lemma aio_sink_dwrites_fails : forall ps k k',
    dwrites sink sink_write k ps = (k', true) -> k_fails k' = k_fails k.
  Proof.
    induction ps as [|p ps IH]; intros k k' H; cbn [dwrites] in H.
    - injection H as <-. reflexivity.
    - destruct (sink_write k p) as [k1 ok] eqn:E. destruct ok; [|discriminate H].
      apply af_sink_write_true in E. destruct E as [_ E]. rewrite (IH _ _ H). exact E.
  Qed.

  Lemma session_total :
    forall (cs : nat) (rs : list recipient) (tape : bytes) (ws : list bytes) (plan : list bool),
      (0 < cs)%nat ->
      (N.of_nat (length (concat ws)) < ctr_limit)%N ->
      exists k eok oks,
        encrypt_session P sink sink_write cs rs tape (empty_sink plan) ws = Ok (k, eok, oks).
  Proof.
    intros cs rs tape ws plan Hcs Hlim. unfold encrypt_session.
    destruct (encrypt_open P sink sink_write rs tape (empty_sink plan)) as [[[pl k1]|c|n] x] eqn:E.
    - destruct (aio_open_plan _ _ _ _ _ _ _ _ E) as (_ & _ & kh & Hh & Hn).
      apply aio_sink_dwrites_fails in Hh. apply af_sink_write_true in Hn. destruct Hn as [_ Hn].
      assert (Hg : sgood k1 = true).
      { unfold sgood. rewrite Hn, Hh. reflexivity. }
      destruct (w_run_spec cs Hcs (aead_seal P (stream_key P (ep_file_key pl) (ep_nonce pl)))
                  sink sink_write k_acc sgood sink_write_ok sink_write_fail (k_acc k1)
                  ws w_init k1 [] [])
        as (w' & k' & i & j & Hr & _).
      + apply (w_init_open cs _ sink sink_write k_acc sgood (k_acc k1) k1 Hg eq_refl).
      + exact Hlim.
      + rewrite Hr. cbn [bind]. eexists _, _, _. reflexivity.
    - eexists _, _, _. reflexivity.
    - exfalso. exact (aio_open_no_panic _ _ _ _ _ _ _ E).
  Qed.

  (** ** Decrypt over sources *)

  Lemma aio_open_len_ok : AeadLen P -> forall key, open_len_ok (aead_open P key).
  Proof. intros H key n c p Ho. rewrite (H _ _ _ _ Ho). lia. Qed.

  (** what a successful Decrypt read *)
  Lemma aio_decrypt_open_ok : forall ids file o n e w,
    decrypt_open P ids file = (Ok o, n, e, w) ->
    exists h payload, parse file = Ok (h, payload) /\ stream_nonce_size <= length payload /\
      do_payload o = skipn stream_nonce_size payload.
  Proof.
    intros ids file o n e w H. unfold decrypt_open in H.
    destruct ids as [|i ids']; [discriminate H|].
    destruct (parse file) as [[h payload]|c|k]; try discriminate H.
    destruct (identity_loop P (i :: ids') (h_stanzas h) 0 0 []) as [[[r n'] e'] w'].
    destruct r as [fk|c|k]; try discriminate H.
    destruct (negb (bytes_eqb (header_mac P fk (h_stanzas h)) (h_mac h))); [discriminate H|].
    destruct (Nat.ltb (length payload) stream_nonce_size) eqn:El; [discriminate H|].
    apply Nat.ltb_ge in El. injection H as <- _ _ _. cbn [do_payload].
    exists h, payload. split; [reflexivity|]. split; [exact El|reflexivity].
  Qed.

  (** Decrypt looks at the header and the nonce only *)
  Lemma aio_decrypt_open_ext : forall ids h payload rest o n e w,
    wf_header h = true ->
    decrypt_open P ids (marshal h ++ payload) = (Ok o, n, e, w) ->
    decrypt_open P ids (marshal h ++ payload ++ rest) =
      (Ok (mkDecOpen (do_key o) (do_payload o ++ rest) (do_file_key o) (do_consulted o)), n, e, w).
  Proof.
    intros ids h payload rest o n e w Hwf H. unfold decrypt_open in *.
    destruct ids as [|i ids']; [discriminate H|].
    rewrite marshal_parse in H by exact Hwf. rewrite marshal_parse by exact Hwf.
    destruct (identity_loop P (i :: ids') (h_stanzas h) 0 0 []) as [[[r n'] e'] w'].
    destruct r as [fk|c|k]; try discriminate H.
    destruct (negb (bytes_eqb (header_mac P fk (h_stanzas h)) (h_mac h))); [discriminate H|].
    destruct (Nat.ltb (length payload) stream_nonce_size) eqn:El; [discriminate H|].
    apply Nat.ltb_ge in El.
    replace (Nat.ltb (length (payload ++ rest)) stream_nonce_size) with false
      by (symmetry; apply Nat.ltb_ge; rewrite app_length; lia).
    injection H as <- <- <- <-. cbn [do_key do_payload do_file_key do_consulted].
    rewrite firstn_app_le, skipn_app_le by exact El. reflexivity.
  Qed.

  Lemma aio_skipn_pre : forall (pre x : bytes), skipn (length pre) (pre ++ x) = x.
  Proof.
    intros pre x. rewrite skipn_app, skipn_all, Nat.sub_diag. reflexivity.
  Qed.

  Lemma decrypt_sched_indep :
    forall (cs : nat) (ids : list identity) (file : bytes) (pieces caps : list nat)
           (eofdata : bool) (dflt : nat),
      (0 < cs)%nat ->
      (N.of_nat (length file) < ctr_limit)%N ->
      AeadLen P ->
      decrypt_src P cs ids (mkSrc file pieces eofdata None EIo) caps dflt
      = decrypt_bytes P cs ids file.
  Proof.
    intros cs ids file pieces caps eofdata dflt Hcs Hlim Hlen.
    unfold decrypt_src, decrypt_bytes, src_content.
    cbn [s_fault s_data s_pieces s_eofdata s_fclass fault_sub].
    destruct (decrypt_open P ids file) as [[[r n] e] w] eqn:E.
    destruct r as [o|c|k]; [|reflexivity|reflexivity].
    destruct (aio_decrypt_open_ok _ _ _ _ _ _ E) as (h & payload & Hp & Hl & Hd).
    apply parse_marshal in Hp.
    set (pre := marshal h ++ firstn stream_nonce_size payload).
    assert (Hf : file = pre ++ do_payload o).
    { subst pre. rewrite Hd, <- app_assoc, firstn_skipn. symmetry. exact Hp. }
    assert (Hle : length (do_payload o) <= length file) by (rewrite Hf, app_length; lia).
    assert (Hsk : skipn (length file - length (do_payload o)) file = do_payload o).
    { rewrite Hf at 1 2. rewrite app_length.
      replace (length pre + length (do_payload o) - length (do_payload o)) with (length pre) by lia.
      apply aio_skipn_pre. }
    rewrite Hsk.
    rewrite (read_sched_indep cs Hcs (aead_open P (do_key o)) (do_payload o) pieces caps eofdata dflt);
      [|lia|exact (aio_open_len_ok Hlen _)].
    cbn [bind].
    destruct (decrypt_spec cs (aead_open P (do_key o)) (do_payload o)) as [[p oc] l]. reflexivity.
  Qed.

  (** Panics of Decrypt come from custom identities only *)
  Ltac aio_nopanic H :=
    repeat (try discriminate H;
            match type of H with context [match ?x with _ => _ end] => destruct x end);
    try discriminate H.

  Lemma aio_multi_unwrap_panic : forall (f : stanza -> res bytes * list N) ss m w,
    multi_unwrap f ss = (Panic m, w) -> exists s w', f s = (Panic m, w').
  Proof.
    induction ss as [|s ss IH]; intros m w H; cbn [multi_unwrap] in H; [discriminate H|].
    destruct (f s) as [r w0] eqn:Ef. destruct r as [fk|c|k].
    - discriminate H.
    - destruct c; try discriminate H.
      destruct (multi_unwrap f ss) as [r' w''] eqn:Em. injection H as -> _.
      exact (IH _ _ eq_refl).
    - injection H as -> _. exists s, w0. exact Ef.
  Qed.

  Lemma aio_unwrap_panic : forall i ss m w,
    unwrap P i ss = (Panic m, w) -> i = IStub (Panic m).
  Proof.
    intros i ss m w H. destruct i as [secret pub|pass mx|blob secret pub|blob|answer];
      cbn [unwrap] in H.
    - exfalso. apply aio_multi_unwrap_panic in H. destruct H as (s & w' & H).
      unfold nolog in H. injection H as H _.
      unfold unwrap_x25519, aead_decrypt_sized in H. aio_nopanic H.
    - exfalso.
      destruct (existsb (fun s => bytes_eqb (st_type s) ty_scrypt) ss && negb (Nat.eqb (length ss) 1));
        [discriminate H|].
      apply aio_multi_unwrap_panic in H. destruct H as (s & w' & H).
      unfold unwrap_scrypt, aead_decrypt_sized in H. aio_nopanic H.
    - exfalso. apply aio_multi_unwrap_panic in H. destruct H as (s & w' & H).
      unfold nolog in H. injection H as H _.
      unfold unwrap_ssh_ed in H. aio_nopanic H.
    - exfalso. apply aio_multi_unwrap_panic in H. destruct H as (s & w' & H).
      unfold nolog in H. injection H as H _.
      unfold unwrap_ssh_rsa in H. aio_nopanic H.
    - injection H as -> _. reflexivity.
  Qed.

  Lemma aio_identity_loop_panic : forall ids ss c e w m c' e' w',
    identity_loop P ids ss c e w = (Panic m, c', e', w') -> In (IStub (Panic m)) ids.
  Proof.
    induction ids as [|i ids IH]; intros ss c e w m c' e' w' H; cbn [identity_loop] in H;
      [discriminate H|].
    destruct (unwrap P i ss) as [r w0] eqn:Eu. destruct r as [fk|cl|k].
    - destruct fk; discriminate H.
    - destruct cl; try discriminate H. right. exact (IH _ _ _ _ _ _ _ _ H).
    - injection H as -> _ _ _. left. exact (aio_unwrap_panic _ _ _ _ Eu).
  Qed.

  Lemma aio_decrypt_open_panic : forall ids file m n e w,
    decrypt_open P ids file = (Panic m, n, e, w) -> In (IStub (Panic m)) ids.
  Proof.
    intros ids file m n e w H. unfold decrypt_open in H.
    destruct ids as [|i ids']; [discriminate H|].
    pose proof (parse_total file) as Ht.
    destruct (parse file) as [[h payload]|c|k]; [|discriminate H|contradiction].
    destruct (identity_loop P (i :: ids') (h_stanzas h) 0 0 []) as [[[r n'] e'] w'] eqn:El.
    destruct r as [fk|c|k].
    - destruct (negb (bytes_eqb (header_mac P fk (h_stanzas h)) (h_mac h))); [discriminate H|].
      destruct (Nat.ltb (length payload) stream_nonce_size); discriminate H.
    - discriminate H.
    - injection H as -> _ _ _. exact (aio_identity_loop_panic _ _ _ _ _ _ _ _ _ El).
  Qed.

  (** C13a, source faults.  The statement originally proposed had [False] in
      the [Panic] arm without any hypothesis on [ids]; that is FALSE of the
      model ([decrypt_read_faults_refuted] below): a custom identity may
      panic.  This is the strongest form: the only panics are those. *)
  Lemma decrypt_read_faults_gen :
    forall (cs : nat) (ids : list identity) (file : bytes) (pieces caps : list nat)
           (eofdata : bool) (dflt k : nat),
      (0 < cs)%nat ->
      (k <= length file)%nat ->
      (N.of_nat (length file) < ctr_limit)%N ->
      AeadLen P ->
      match decrypt_src P cs ids (mkSrc file pieces eofdata (Some k) EIo) caps dflt with
      | Ok (released, oc) =>
          oc <> CleanEOF /\
          exists full oc', decrypt_bytes P cs ids file = Ok (full, oc') /\ is_prefix released full = true
      | Err _ => True
      | Panic n => In (IStub (Panic n)) ids
      end.
  Proof.
    intros cs ids file pieces caps eofdata dflt k Hcs Hk Hlim Hlen.
    unfold decrypt_src, src_content.
    cbn [s_fault s_data s_pieces s_eofdata s_fclass fault_sub].
    destruct (decrypt_open P ids (firstn k file)) as [[[r n] e] w] eqn:E.
    destruct r as [o|c|m]; [|exact I|exact (aio_decrypt_open_panic _ _ _ _ _ _ E)].
    destruct (aio_decrypt_open_ok _ _ _ _ _ _ E) as (h & payload & Hp & Hl & Hd).
    pose proof (parse_wf _ _ _ Hp) as Hwf. apply parse_marshal in Hp.
    set (rest := skipn k file).
    assert (Hfile : file = marshal h ++ payload ++ rest).
    { rewrite app_assoc, Hp. symmetry. apply firstn_skipn. }
    rewrite <- Hp in E.
    pose proof (aio_decrypt_open_ext ids h payload rest o n e w Hwf E) as Hfull.
    rewrite <- Hfile in Hfull.
    set (pre := marshal h ++ firstn stream_nonce_size payload).
    assert (Hpre : firstn k file = pre ++ do_payload o).
    { subst pre. rewrite Hd, <- app_assoc, firstn_skipn. symmetry. exact Hp. }
    assert (Hfile2 : file = pre ++ (do_payload o ++ rest)).
    { rewrite app_assoc, <- Hpre. symmetry. apply firstn_skipn. }
    assert (Hkl : k = length pre + length (do_payload o)).
    { rewrite <- app_length, <- Hpre, firstn_length. lia. }
    rewrite firstn_length.
    replace (Nat.min k (length file) - length (do_payload o)) with (length pre) by lia.
    replace (k - length pre) with (length (do_payload o)) by lia.
    assert (Hsk : skipn (length pre) file = do_payload o ++ rest).
    { rewrite Hfile2 at 1. apply aio_skipn_pre. }
    rewrite Hsk.
    assert (Hlb : length (do_payload o ++ rest) <= length file).
    { pose proof (f_equal (@length byte) Hfile2) as HL. rewrite !app_length in HL.
      rewrite app_length. lia. }
    destruct (read_faults_surface cs Hcs (aead_open P (do_key o)) (do_payload o ++ rest)
                pieces caps eofdata dflt (length (do_payload o)) EIo)
      as (released & oc & l & Hr & Hoc & Hpref);
      [rewrite app_length; lia|lia|exact (aio_open_len_ok Hlen _)|].
    rewrite Hr. cbn [bind]. split; [exact Hoc|].
    unfold decrypt_bytes. rewrite Hfull. cbn [do_key do_payload].
    destruct (decrypt_spec cs (aead_open P (do_key o)) (do_payload o ++ rest)) as [[full oc'] l'].
    cbn [fst] in Hpref. exists full, oc'. split; [reflexivity|exact Hpref].
  Qed.

  (** The guarded form used by C13a: no custom identity panics. *)
  Lemma decrypt_read_faults :
    forall (cs : nat) (ids : list identity) (file : bytes) (pieces caps : list nat)
           (eofdata : bool) (dflt k : nat),
      (0 < cs)%nat ->
      (k <= length file)%nat ->
      (N.of_nat (length file) < ctr_limit)%N ->
      AeadLen P ->
      (forall n, ~ In (IStub (Panic n)) ids) ->
      match decrypt_src P cs ids (mkSrc file pieces eofdata (Some k) EIo) caps dflt with
      | Ok (released, oc) =>
          oc <> CleanEOF /\
          exists full oc', decrypt_bytes P cs ids file = Ok (full, oc') /\ is_prefix released full = true
      | Err _ => True
      | Panic _ => False
      end.
  Proof.
    intros cs ids file pieces caps eofdata dflt k Hcs Hk Hlim Hlen Hids.
    pose proof (decrypt_read_faults_gen cs ids file pieces caps eofdata dflt k Hcs Hk Hlim Hlen) as H.
    destruct (decrypt_src P cs ids (mkSrc file pieces eofdata (Some k) EIo) caps dflt)
      as [[released oc]|c|n]; [exact H|exact I|exact (Hids n H)].
  Qed.
End WithPrims.

(** The unguarded statement is false: one custom identity that panics, a
    well-formed header, the source failing only at the very end. *)
Lemma decrypt_read_faults_refuted :
  exists (P : Prims) (cs : nat) (ids : list identity) (file : bytes) (pieces caps : list nat)
         (eofdata : bool) (dflt k : nat),
    (0 < cs)%nat /\ (k <= length file)%nat /\ (N.of_nat (length file) < ctr_limit)%N /\
    AeadLen P /\
    decrypt_src P cs ids (mkSrc file pieces eofdata (Some k) EIo) caps dflt = Panic 7.
Proof.
  exists (mkPrims (fun _ _ _ => []) (fun _ _ _ => None) (fun _ _ _ => []) (fun _ _ => [])
                  (fun _ => []) (fun _ _ => None) (fun _ _ _ => []) (fun _ _ _ _ => [])
                  (fun _ _ _ => None)).
  exists 1, [IStub (Panic 7)], (marshal (mkHeader [] (repeat x00 32))), [], [], false, 1,
         (length (marshal (mkHeader [] (repeat x00 32)))).
  split; [lia|]. split; [apply le_n|]. split; [vm_compute; reflexivity|].
  split; [intros k n c p H; discriminate H|]. vm_compute. reflexivity.
Qed.
