(** IdFile.v — model of the dispatch at the head of cmd/age/parse.go
    parseIdentitiesFile: the first 14 bytes of an identity file decide whether
    it is read as an age-encrypted identity file (binary or armored), as a PEM
    file (SSH private key), or as a text file of identities, one per line
    (KeyFile.cli_parse_identities).  The size limits of the first two branches
    (io.LimitReader) are part of the model; what happens inside them
    (EncryptedIdentity, parseSSHIdentity) is not. *)

From Age Require Import Base Bech32 KeyFile.

Definition peek_len : nat := 14.
Definition peek_age : bytes := Eval cbv in bs "age-encryption".
Definition peek_armor : bytes := Eval cbv in bs "-----BEGIN AGE".
Definition peek_pem : bytes := Eval cbv in bs "-----BEGIN".

Inductive idfile_kind := IKEncrypted (armored : bool) | IKPem | IKText.

Definition idfile_kind_of (text : bytes) : idfile_kind :=
  let p := firstn peek_len text in
  if bytes_eqb p peek_age then IKEncrypted false
  else if bytes_eqb p peek_armor then IKEncrypted true
  else if is_prefix peek_pem p then IKPem
  else IKText.

(** privateKeySizeLimit of the two non-text branches, in N *)
Definition enc_limit : N := 16777216.   (* 1 << 24, on the (de-armored) contents *)
Definition pem_limit : N := 16384.      (* 1 << 14 *)

Inductive idfile_result :=
| IFEncrypted (armored : bool)          (* handed to EncryptedIdentity, lazily *)
| IFPem                                 (* handed to parseSSHIdentity *)
| IFTooLong
| IFText (r : kf_result).

(** for the binary and PEM branches the length tested is that of the file
    itself; for the armored branch it is that of the de-armored contents, which
    the caller supplies ([None]: de-armoring failed, a read error) *)
Definition idfile (text : bytes) (dearmored_len : option N) : option idfile_result :=
  match idfile_kind_of text with
  | IKEncrypted false =>
      Some (if N.leb enc_limit (N.of_nat (length text)) then IFTooLong else IFEncrypted false)
  | IKEncrypted true =>
      match dearmored_len with
      | None => None
      | Some n => Some (if N.leb enc_limit n then IFTooLong else IFEncrypted true)
      end
  | IKPem => Some (if N.leb pem_limit (N.of_nat (length text)) then IFTooLong else IFPem)
  | IKText => Some (IFText (cli_parse_identities text))
  end.
