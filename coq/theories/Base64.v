(** Base64.v — the two base64 codecs age uses, as the code uses them.

    - [b64_enc_raw]/[b64_dec_raw]: base64.RawStdEncoding.Strict() guarded by
      format.DecodeString's CR/LF test (internal/format/format.go): unpadded,
      every byte must be in the alphabet, unused trailing bits must be zero.
    - [b64_enc_std]/[b64_dec_std]: base64.StdEncoding.Strict() as used by the
      armor reader on one body line (armor/armor.go, after the CR fix): padded
      to a multiple of 4, '=' only at the very end. *)

From Age Require Import Base.
Local Open Scope N_scope.

Definition b64_char (n : N) : byte :=
  if N.ltb n 26 then n2b (65 + n)
  else if N.ltb n 52 then n2b (71 + n)
  else if N.ltb n 62 then n2b (n - 4)
  else if N.eqb n 62 then x2b else x2f.

Definition b64_val (c : byte) : option N :=
  let v := b2n c in
  if N.leb 65 v && N.leb v 90 then Some (v - 65)
  else if N.leb 97 v && N.leb v 122 then Some (v - 71)
  else if N.leb 48 v && N.leb v 57 then Some (v + 4)
  else if N.eqb v 43 then Some 62
  else if N.eqb v 47 then Some 63
  else None.

Definition PAD : byte := x3d.

(** sextet arithmetic *)
Definition enc3 (a b c : byte) : bytes :=
  let n := (b2n a * 65536 + b2n b * 256 + b2n c)%N in
  [b64_char (n / 262144); b64_char ((n / 4096) mod 64);
   b64_char ((n / 64) mod 64); b64_char (n mod 64)].
Definition enc2 (a b : byte) : bytes :=        (* 3 characters, 2 zero bits *)
  let n := (b2n a * 1024 + b2n b * 4)%N in
  [b64_char (n / 4096); b64_char ((n / 64) mod 64); b64_char (n mod 64)].
Definition enc1 (a : byte) : bytes :=          (* 2 characters, 4 zero bits *)
  let n := (b2n a * 16)%N in
  [b64_char (n / 64); b64_char (n mod 64)].

Definition dec4 (c1 c2 c3 c4 : byte) : option bytes :=
  match b64_val c1, b64_val c2, b64_val c3, b64_val c4 with
  | Some v1, Some v2, Some v3, Some v4 =>
      let n := (v1 * 262144 + v2 * 4096 + v3 * 64 + v4)%N in
      Some [n2b (n / 65536); n2b ((n / 256) mod 256); n2b (n mod 256)]
  | _, _, _, _ => None
  end.
Definition dec3 (c1 c2 c3 : byte) : option bytes :=
  match b64_val c1, b64_val c2, b64_val c3 with
  | Some v1, Some v2, Some v3 =>
      let n := (v1 * 4096 + v2 * 64 + v3)%N in
      if N.eqb (n mod 4) 0 then Some [n2b (n / 1024); n2b ((n / 4) mod 256)] else None
  | _, _, _ => None
  end.
Definition dec2 (c1 c2 : byte) : option bytes :=
  match b64_val c1, b64_val c2 with
  | Some v1, Some v2 =>
      let n := (v1 * 64 + v2)%N in
      if N.eqb (n mod 16) 0 then Some [n2b (n / 16)] else None
  | _, _ => None
  end.

Definition opt_app (a : option bytes) (b : option bytes) : option bytes :=
  match a, b with Some x, Some y => Some (x ++ y) | _, _ => None end.

(** * Unpadded, strict (header lines, arguments, MAC) *)

Fixpoint b64_enc_raw (l : bytes) : bytes :=
  match l with
  | a :: b :: c :: rest => enc3 a b c ++ b64_enc_raw rest
  | [a; b] => enc2 a b
  | [a] => enc1 a
  | [] => []
  end.

Fixpoint b64_dec_raw (s : bytes) : option bytes :=
  match s with
  | c1 :: c2 :: c3 :: c4 :: rest => opt_app (dec4 c1 c2 c3 c4) (b64_dec_raw rest)
  | [c1; c2; c3] => dec3 c1 c2 c3
  | [c1; c2] => dec2 c1 c2
  | [_] => None
  | [] => Some []
  end.

(** * Padded, strict (one armor body line) *)

Fixpoint b64_enc_std (l : bytes) : bytes :=
  match l with
  | a :: b :: c :: rest => enc3 a b c ++ b64_enc_std rest
  | [a; b] => enc2 a b ++ [PAD]
  | [a] => enc1 a ++ [PAD; PAD]
  | [] => []
  end.

Fixpoint b64_dec_std (s : bytes) : option bytes :=
  match s with
  | c1 :: c2 :: c3 :: c4 :: rest =>
      match rest with
      | [] =>
          if Byte.eqb c4 PAD then
            if Byte.eqb c3 PAD then dec2 c1 c2 else dec3 c1 c2 c3
          else dec4 c1 c2 c3 c4
      | _ => opt_app (dec4 c1 c2 c3 c4) (b64_dec_std rest)
      end
  | [] => Some []
  | _ => None
  end.
