(** BufIO.v — bufio.Reader.ReadBytes('\n') and Peek over an IO.src, as the header
    parser and the armor reader use them (format.Parse, armoredReader.getLine).

    The buffer is unbounded here (Go's ReadBytes accumulates full buffers, so
    the 4096-byte size is not observable through ReadBytes); one [fill] is one
    Read of the underlying source.  The point of the model: the lines obtained
    do not depend on how the source delivers its bytes. *)

From Age Require Import Base IO.

Record bufrd := mkBuf {
  b_buf : bytes;            (* bytes read from the source, not yet consumed *)
  b_src : src;
  b_end : option status     (* Some SEof / Some SFail once the source has said so *)
}.

Definition buf_init (s : src) : bufrd := mkBuf [] s None.

Definition fill_cap : nat := 4096.

(** One Read of the underlying source into the buffer. *)
Definition fill (b : bufrd) : bufrd :=
  match b_end b with
  | Some _ => b
  | None =>
      let '(out, st, s') := src_read fill_cap (b_src b) in
      mkBuf (b_buf b ++ out) s'
            (match st with SOk => None | SEof => Some SEof | SFail => Some SFail end)
  end.

(** Split at the first LF: the line including its LF, and the rest. *)
Fixpoint cut_line (l : bytes) : option (bytes * bytes) :=
  match l with
  | [] => None
  | x :: r =>
      if Byte.eqb x LF then Some ([x], r)
      else match cut_line r with
           | Some (line, rest) => Some (x :: line, rest)
           | None => None
           end
  end.

(** ReadBytes('\n'): [inl line] (ending in LF), or [inr (partial, how the
    source ended)] when no LF arrives before the end.  Fuel: every fill that
    does not end the source brings at least one byte. *)
Fixpoint read_bytes_lf (fuel : nat) (b : bufrd) : (bytes + (bytes * status)) * bufrd :=
  match cut_line (b_buf b) with
  | Some (line, rest) => (inl line, mkBuf rest (b_src b) (b_end b))
  | None =>
      match b_end b with
      | Some st => (inr (b_buf b, st), mkBuf [] (b_src b) (b_end b))
      | None =>
          match fuel with
          | O => (inr (b_buf b, SFail), b)          (* unreachable *)
          | S f => read_bytes_lf f (fill b)
          end
      end
  end.

Definition line_fuel (b : bufrd) : nat := S (S (length (s_data (b_src b)))).

Definition read_line (b : bufrd) : (bytes + (bytes * status)) * bufrd :=
  read_bytes_lf (line_fuel b) b.

(** All the lines until the source ends: complete lines, the unterminated tail,
    and how the source ended. *)
Fixpoint read_all_lines (fuel : nat) (b : bufrd) (acc : list bytes) : list bytes * bytes * status :=
  match fuel with
  | O => (acc, [], SFail)
  | S f =>
      match read_line b with
      | (inl line, b') => read_all_lines f b' (acc ++ [line])
      | (inr (tail, st), _) => (acc, tail, st)
      end
  end.

(** Everything the reader will still deliver: its buffer, then the source. *)
Definition buf_content (b : bufrd) : bytes := b_buf b ++ src_content (b_src b).
