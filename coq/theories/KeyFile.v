(** KeyFile.v — model of parse.go (age.ParseIdentities / ParseRecipients) and of
    the CLI's key-file parsers in cmd/age/parse.go (parseIdentities,
    parseRecipientsFile): one key per line that is neither empty nor a
    #-comment, the whole file rejected at the first bad line.

    bufio.Scanner with ScanLines: lines end at LF, one trailing CR is dropped,
    a final unterminated line counts if it is not empty; a line of 65536 bytes
    or more stops the scan with an error (lines before it have been
    processed).  The 16 MiB io.LimitReader is a guard of the theorems, not
    modelled.  SSH public-key parsing (agessh.ParseRecipient) and the CLI's
    sshKeyType test are section variables. *)

From Age Require Import Base Bech32.

(** dropCR: one trailing CR is dropped (structural; List.rev is quadratic). *)
Fixpoint drop_cr (l : bytes) : bytes :=
  match l with
  | [] => []
  | [c] => if Byte.eqb c CR then [] else [c]
  | x :: r => x :: drop_cr r
  end.

Definition scan_lines (text : bytes) : list bytes :=
  let ls := split_on LF text in
  let ls' := match rev ls with
             | [] :: r => rev r          (* text ends with LF (or is empty): no final line *)
             | _ => ls
             end in
  map drop_cr ls'.

Definition hash : byte := x23.
Definition counted (l : bytes) : bool :=
  match l with
  | [] => false
  | c :: _ => negb (Byte.eqb c hash)
  end.

(** the scanner gives up on a token that does not fit its 64 KiB buffer;
    compared in N to keep large naturals out of the sources *)
Definition too_long (l : bytes) : bool := N.leb 65536 (N.of_nat (length l)).

Inductive key :=
| KNative (k : bytes)                 (* X25519 identity or recipient: the 32 bytes *)
| KPlugin (name data : bytes)
| KSsh (blob : bytes).                (* an SSH recipient, by what the parser returned *)

Inductive kf_result :=
| KfOk (keys : list key)
| KfErrLine (n : nat)                 (* "... at line n" *)
| KfErrNoKeys
| KfErrRead                           (* scanner error (token too long) *)
| KfPanic (site : nat).

(** The scanning loop shared by all four parsers.  [parse_line] answers
    [inl key], [inr true] = skip the line with a warning (CLI, unsupported SSH
    key types), [inr false] = reject. *)
Inductive line_verdict := LKey (k : key) | LSkip | LBad | LPanic (n : nat).

Fixpoint kf_loop (parse_line : bytes -> line_verdict) (ls : list bytes) (n : nat) (acc : list key)
  : kf_result :=
  match ls with
  | [] => match acc with [] => KfErrNoKeys | _ => KfOk acc end
  | l :: rest =>
      if too_long l then KfErrRead else
      if negb (counted l) then kf_loop parse_line rest (S n) acc else
      match parse_line l with
      | LKey k => kf_loop parse_line rest (S n) (acc ++ [k])
      | LSkip => kf_loop parse_line rest (S n) acc
      | LBad => KfErrLine (S n)
      | LPanic s => KfPanic s
      end
  end.

Definition verdict_of (r : res bytes) : line_verdict :=
  match r with Ok k => LKey (KNative k) | Err _ => LBad | Panic n => LPanic n end.

(** age.ParseIdentities / age.ParseRecipients *)
Definition parse_identities (text : bytes) : kf_result :=
  kf_loop (fun l => verdict_of (parse_identity l)) (scan_lines text) 0 [].
Definition parse_recipients (text : bytes) : kf_result :=
  kf_loop (fun l => verdict_of (parse_recipient l)) (scan_lines text) 0 [].

(** cmd/age *)
Definition pfx_secret1 : bytes := Eval cbv in bs "AGE-SECRET-KEY-1".
Definition pfx_ssh : bytes := Eval cbv in bs "ssh-".
Definition count_byte (c : byte) (l : bytes) : nat := length (filter (Byte.eqb c) l).

Definition plugin_verdict (r : res (bytes * bytes)) : line_verdict :=
  match r with Ok (n, d) => LKey (KPlugin n d) | Err _ => LBad | Panic n => LPanic n end.

Definition cli_identity_line (l : bytes) : line_verdict :=
  if is_prefix pfx_plugin_id l then plugin_verdict (parse_plugin_identity l)
  else if is_prefix pfx_secret1 l then verdict_of (parse_identity l)
  else LBad.

Definition cli_parse_identities (text : bytes) : kf_result :=
  kf_loop cli_identity_line (scan_lines text) 0 [].

Definition cli_too_long (l : bytes) : bool := N.ltb 8192 (N.of_nat (length l)).

Section CliRecipients.
  Variable ssh_parse : bytes -> option bytes.     (* agessh.ParseRecipient: Some blob / None *)
  Variable ssh_key_type_ok : bytes -> bool.       (* cmd/age sshKeyType(line) *)

  Definition cli_recipient_arg (l : bytes) : line_verdict :=
    if is_prefix pfx_plugin_rcpt l && Nat.ltb 1 (count_byte one l)
    then plugin_verdict (parse_plugin_recipient l)
    else if is_prefix pfx_plugin_rcpt l then verdict_of (parse_recipient l)
    else if is_prefix pfx_ssh l then
      match ssh_parse l with Some b => LKey (KSsh b) | None => LBad end
    else LBad.

  Definition cli_recipient_line (l : bytes) : line_verdict :=
    if cli_too_long l then LBad else
    match cli_recipient_arg l with
    | LBad => if ssh_key_type_ok l then LSkip else LBad
    | v => v
    end.

  Definition cli_parse_recipients (text : bytes) : kf_result :=
    kf_loop cli_recipient_line (scan_lines text) 0 [].
End CliRecipients.

(** What a correct parser must return, as a specification: the keys of the
    counted lines in order. *)
Fixpoint keys_of (parse_line : bytes -> line_verdict) (ls : list bytes) : option (list key) :=
  match ls with
  | [] => Some []
  | l :: rest =>
      match parse_line l, keys_of parse_line rest with
      | LKey k, Some ks => Some (k :: ks)
      | LSkip, Some ks => Some ks
      | _, _ => None
      end
  end.
