From Age Require Import Base PathLookup.
From Coq Require Import Lia.

Lemma lookpath_from_spec : forall path i,
  match lookpath_from i path with
  | LRun k => exists j e, k = (i + j)%nat /\ nth_error path j = Some e /\ pe_has e = true /\ pe_abs e = true /\
                          (forall j' e', (j' < j)%nat -> nth_error path j' = Some e' -> pe_has e' = false)
  | LErrDot k => exists j e, k = (i + j)%nat /\ nth_error path j = Some e /\ pe_has e = true /\ pe_abs e = false /\
                          (forall j' e', (j' < j)%nat -> nth_error path j' = Some e' -> pe_has e' = false)
  | LNotFound => forall e, In e path -> pe_has e = false
  end.
Proof.
  induction path as [|e rest IH]; intro i; cbn [lookpath_from].
  - intros e [].
  - destruct (pe_has e) eqn:Eh.
    + destruct (pe_abs e) eqn:Ea.
      * exists 0%nat, e. repeat split; auto; try lia; try (intros j' e' Hlt; lia).
      * exists 0%nat, e. repeat split; auto; try lia; try (intros j' e' Hlt; lia).
    + specialize (IH (S i)).
      destruct (lookpath_from (S i) rest) as [k|k|].
      * destruct IH as (j & e0 & -> & Hn & Hh & Ha & Hb).
        exists (S j), e0. split; [lia|]. split; [exact Hn|]. split; [exact Hh|]. split; [exact Ha|].
        intros j' e' Hlt Hn'. destruct j' as [|j'']; cbn [nth_error] in Hn'.
        { injection Hn' as <-. exact Eh. }
        { apply (Hb j'' e'); [lia | exact Hn']. }
      * destruct IH as (j & e0 & -> & Hn & Hh & Ha & Hb).
        exists (S j), e0. split; [lia|]. split; [exact Hn|]. split; [exact Hh|]. split; [exact Ha|].
        intros j' e' Hlt Hn'. destruct j' as [|j'']; cbn [nth_error] in Hn'.
        { injection Hn' as <-. exact Eh. }
        { apply (Hb j'' e'); [lia | exact Hn']. }
      * intros e' [<-|Hin]; [exact Eh | apply IH; exact Hin].
Qed.

(** What is executed is the FIRST entry holding the program, and only if that
    entry is absolute. *)
Lemma executed_spec : forall path k,
  executed path = Some k <->
  exists e, nth_error path k = Some e /\ pe_has e = true /\ pe_abs e = true /\
            (forall j e', (j < k)%nat -> nth_error path j = Some e' -> pe_has e' = false).
Proof.
  intros path k. unfold executed, lookpath.
  pose proof (lookpath_from_spec path 0) as H.
  destruct (lookpath_from 0 path) as [i|i|]; split.
  - intro E. injection E as <-. destruct H as (j & e & -> & Hn & Hh & Ha & Hb). exists e. auto.
  - intros (e & Hn & Hh & Ha & Hb). destruct H as (j & e0 & -> & Hn0 & Hh0 & Ha0 & Hb0). cbn [Nat.add].
    f_equal. destruct (Nat.lt_trichotomy j k) as [Hlt|[->|Hgt]]; [|reflexivity|].
    + specialize (Hb j e0 Hlt Hn0). congruence.
    + specialize (Hb0 k e Hgt Hn). congruence.
  - discriminate.
  - intros (e & Hn & Hh & Ha & Hb). destruct H as (j & e0 & -> & Hn0 & Hh0 & Ha0 & Hb0). cbn [Nat.add] in *.
    exfalso. destruct (Nat.lt_trichotomy j k) as [Hlt|[->|Hgt]].
    + specialize (Hb j e0 Hlt Hn0). congruence.
    + rewrite Hn in Hn0. injection Hn0 as <-. congruence.
    + specialize (Hb0 k e Hgt Hn). congruence.
  - discriminate.
  - intros (e & Hn & Hh & _). apply nth_error_In in Hn. specialize (H e Hn). congruence.
Qed.

(** Nothing is ever run out of a relative PATH entry, and a relative entry that
    holds the program shadows every later entry. *)
Lemma never_from_relative_entry : forall path k e,
  executed path = Some k -> nth_error path k = Some e -> pe_abs e = true.
Proof.
  intros path k e H Hn. apply executed_spec in H. destruct H as (e0 & Hn0 & _ & Ha & _).
  rewrite Hn in Hn0. injection Hn0 as <-. exact Ha.
Qed.

Lemma relative_hit_blocks : forall pre e post,
  (forall e', In e' pre -> pe_has e' = false) -> pe_has e = true -> pe_abs e = false ->
  executed (pre ++ e :: post) = None.
Proof.
  intros pre e post Hpre Hh Ha. destruct (executed (pre ++ e :: post)) as [k|] eqn:E; [|reflexivity].
  apply executed_spec in E. destruct E as (e0 & Hn & Hh0 & Ha0 & Hb). exfalso.
  destruct (Nat.lt_trichotomy k (length pre)) as [Hlt|[->|Hgt]].
  - rewrite nth_error_app1 in Hn by exact Hlt. apply nth_error_In in Hn. rewrite (Hpre _ Hn) in Hh0. discriminate.
  - rewrite nth_error_app2 in Hn by lia. rewrite Nat.sub_diag in Hn. cbn in Hn. injection Hn as <-. congruence.
  - assert (Hn' : nth_error (pre ++ e :: post) (length pre) = Some e).
    { rewrite nth_error_app2 by lia. rewrite Nat.sub_diag. reflexivity. }
    specialize (Hb _ _ Hgt Hn'). congruence.
Qed.

Example lookpath_examples :
  executed [mkPE false true; mkPE true true] = None /\
  executed [mkPE true false; mkPE true true; mkPE true true] = Some 1%nat /\
  executed [mkPE false false; mkPE true true] = Some 1%nat /\
  executed [mkPE true false] = None.
Proof. repeat split. Qed.
