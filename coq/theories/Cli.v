(** Cli.v — model of the delivery logic of cmd/age/age.go and
    cmd/age-keygen/keygen.go: when is the exit status 0, what is left at the
    -o path.  The library's part is an input ([lib_dec] / [lib_enc], decided
    by the other models); the output device is described by [dev].

    Not modelled: flag parsing, TTY heuristics, reading the input, the kernel. *)

From Age Require Import Base.

(** What age.Decrypt + reading the payload amount to. *)
Inductive lib_dec :=
| LdRefused              (* Decrypt returned an error: malformed or altered header,
                            no matching identity, wrong passphrase *)
| LdPlain (p : bytes)    (* the whole plaintext, clean EOF *)
| LdFail (q : bytes).    (* the payload failed after releasing q *)

(** What age.Encrypt (+ armor) amounts to. *)
Inductive lib_enc :=
| LeRefused              (* Encrypt returned an error before writing anything *)
| LeBytes (b : bytes).   (* the complete output *)

(** The state of the path named by -o. *)
Inductive fstate := FAbsent | FContent (b : bytes).

Record dev := mkDev {
  d_creatable : bool;          (* os.Create / O_EXCL open succeeds *)
  d_capacity  : option nat;    (* Some n: writes fail after n bytes in total *)
  d_close_ok  : bool
}.

Definition fits (d : dev) (n : nat) : bool :=
  match d_capacity d with Some c => Nat.leb n c | None => true end.
Definition accepted (d : dev) (b : bytes) : bytes :=
  match d_capacity d with Some c => firstn c b | None => b end.

(** lazyOpener + io.Copy + the deferred Close, for [age -d -o FILE]:
    exit status is 0?, and the state of FILE afterwards. *)
Definition decrypt_cli (prev : fstate) (d : dev) (l : lib_dec) : bool * fstate :=
  match l with
  | LdRefused => (false, prev)                       (* errorf before out.Write(nil) *)
  | LdPlain p =>
      if negb (d_creatable d) then (false, prev)     (* out.Write(nil) fails: checked after the fix *)
      else if negb (fits d (length p)) then (false, FContent (accepted d p))
      else (d_close_ok d, FContent p)
  | LdFail q =>
      if negb (d_creatable d) then (false, prev)
      else (false, FContent (accepted d q))
  end.

(** [age -o FILE] encrypting. *)
Definition encrypt_cli (prev : fstate) (d : dev) (l : lib_enc) : bool * fstate :=
  match l with
  | LeRefused => (false, prev)
  | LeBytes b =>
      if negb (d_creatable d) then (false, prev)
      else if negb (fits d (length b)) then (false, FContent (accepted d b))
      else (d_close_ok d, FContent b)
  end.

(** The same-file refusal: before anything is opened for writing. *)
Section Paths.
  Variable path : Type.
  Variable path_eqb : path -> path -> bool.
  Variable abs : path -> path.             (* filepath.Abs *)

  Definition same_file_refused (out : path) (in_use : list path) : bool :=
    existsb (fun f => path_eqb (abs f) (abs out)) in_use.

  (** main(): returns [None] when the run is refused before any output file
      is touched, otherwise what the chosen mode does. *)
  Definition age_main (decrypting : bool) (out : path) (in_use : list path)
             (prev : fstate) (d : dev) (ld : lib_dec) (le : lib_enc) : bool * fstate :=
    if same_file_refused out in_use then (false, prev)
    else if decrypting then decrypt_cli prev d ld else encrypt_cli prev d le.
End Paths.

(** age-keygen -o FILE: O_WRONLY|O_CREATE|O_EXCL, mode 0600, three writes
    (after the fix each is checked), Close. *)
Definition keygen_cli (prev : fstate) (d : dev) (key_file : bytes) : bool * fstate * option N :=
  match prev with
  | FContent b => (false, FContent b, None)           (* O_EXCL: never overwritten *)
  | FAbsent =>
      if negb (d_creatable d) then (false, FAbsent, None)
      else if negb (fits d (length key_file)) then (false, FContent (accepted d key_file), Some 384%N)
      else (d_close_ok d, FContent key_file, Some 384%N)   (* 0600 = 384 *)
  end.

(** age-keygen writing to standard output (a pipe, a file, /dev/full). *)
Definition keygen_stdout (d : dev) (key_file : bytes) : bool :=
  fits d (length key_file).

(** * cmd/age/encrypted_keys.go: LazyScryptIdentity (age -d without -i)

    It asks for the passphrase only when the header consists of exactly one
    stanza and that stanza is a scrypt stanza; a scrypt stanza among others is
    a fatal error before any prompt; the passphrase identity it then builds has
    the default maximum work factor 22.  Result, whether it prompted, and the
    work factors for which a key was derived. *)
From Age Require Import Format Prims Recipients.

Definition cli_max_work_factor : N := 22.

Definition lazy_scrypt_unwrap (P : Prims) (ss : list stanza) (typed : option bytes)
  : res bytes * bool * list N :=
  if existsb (fun s => bytes_eqb (st_type s) ty_scrypt) ss && negb (Nat.eqb (length ss) 1)
  then (Err EFatal, false, [])
  else
    match ss with
    | [s] =>
        if negb (bytes_eqb (st_type s) ty_scrypt) then (Err EIncorrect, false, [])
        else
          match typed with
          | None => (Err EFatal, true, [])            (* the prompt failed *)
          | Some [] => (Err EFatal, true, [])         (* empty passphrase *)
          | Some pw =>
              let (r, w) := unwrap P (IScrypt pw cli_max_work_factor) ss in
              (match r with Err EIncorrect => Err EFatal | _ => r end, true, w)
          end
    | _ => (Err EIncorrect, false, [])
    end.
