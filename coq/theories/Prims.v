(** Prims.v — the cryptographic primitives age is built on, as a record of
    functions.  Every model that touches cryptography is a function of a
    [P : Prims]; theorems take what they need about [P] as hypotheses
    (functional correctness only, never a security property), so they hold for
    every instance.  Instances: the oracle instance of the OCaml driver (each
    field asks the Go harness, i.e. golang.org/x/crypto) and the small symbolic
    instance in Sym.v used for non-vacuity examples. *)

From Age Require Import Base.

Record Prims := mkPrims {
  aead_seal : bytes -> bytes -> bytes -> bytes;          (* key, nonce, plaintext *)
  aead_open : bytes -> bytes -> bytes -> option bytes;   (* key, nonce, ciphertext *)
  hkdf32    : bytes -> bytes -> bytes -> bytes;          (* ikm, salt, info; SHA-256, 32 bytes *)
  hmac      : bytes -> bytes -> bytes;                   (* key, message; SHA-256 *)
  sha256    : bytes -> bytes;
  x25519    : bytes -> bytes -> option bytes;            (* scalar, point; None = Go's error *)
  scrypt    : bytes -> bytes -> N -> bytes;              (* password, salt, log2 N; r=8 p=1, 32 bytes *)
  rsa_encrypt : bytes -> bytes -> bytes -> bytes -> bytes;      (* key (ssh wire form), label, message, 32 coins *)
  rsa_decrypt : bytes -> bytes -> bytes -> option bytes         (* key (ssh wire form), label, ciphertext *)
}.

Definition basepoint : bytes := x09 :: repeat x00 31.
Definition zero_nonce : bytes := repeat x00 12.

(** Functional-correctness facts theorems may assume (as hypotheses). *)
Definition AeadCorrect (P : Prims) : Prop :=
  (forall k n p, aead_open P k n (aead_seal P k n p) = Some p) /\
  (forall k n p, length (aead_seal P k n p) = length p + 16).

Definition AeadLen (P : Prims) : Prop :=
  forall k n c p, aead_open P k n c = Some p -> length c = length p + 16.

(** Diffie-Hellman agreement for honest shares: scalars [a], [b] with public
    points [pa = x25519 a base], [pb = x25519 b base]. *)
Definition DhAgree (P : Prims) : Prop :=
  forall a b pa pb,
    x25519 P a basepoint = Some pa -> x25519 P b basepoint = Some pb ->
    exists s, x25519 P a pb = Some s /\ x25519 P b pa = Some s.

Definition DhLen (P : Prims) : Prop :=
  forall a p s, x25519 P a p = Some s -> length s = 32.

Definition RsaCorrect (P : Prims) : Prop :=
  forall key label m coins, rsa_decrypt P key label (rsa_encrypt P key label m coins) = Some m.

(** Tapes: the byte stream crypto/rand.Reader will deliver. *)
Definition take (n : nat) (tape : bytes) : option (bytes * bytes) :=
  if Nat.leb n (length tape) then Some (firstn n tape, skipn n tape) else None.
