(** Bech32.v — model of internal/bech32/bech32.go (after the fix that rejects
    bytes outside printable ASCII up front) and of the key-string functions
    built on it: x25519.go Parse*/String, plugin/encode.go.

    Strings are byte lists.  After the up-front test every byte is ASCII, so
    Go's strings.ToLower / ToUpper / range-by-rune are the bytewise ASCII
    operations used here. *)

From Age Require Import Base.
Local Open Scope N_scope.

Definition charset : bytes := Eval cbv in bs "qpzry9x8gf2tvdw0s3jn54khce6mua7l".

Definition is_upper (c : byte) : bool := N.leb 65 (b2n c) && N.leb (b2n c) 90.
Definition is_lower (c : byte) : bool := N.leb 97 (b2n c) && N.leb (b2n c) 122.
Definition to_lower (c : byte) : byte := if is_upper c then n2b (b2n c + 32) else c.
Definition to_upper (c : byte) : byte := if is_lower c then n2b (b2n c - 32) else c.
Definition lower (s : bytes) : bytes := map to_lower s.
Definition upper (s : bytes) : bytes := map to_upper s.
Definition printable (c : byte) : bool := N.leb 33 (b2n c) && N.leb (b2n c) 126.

(** mixed case: ToLower(s) != s && ToUpper(s) != s *)
Definition mixed_case (s : bytes) : bool := existsb is_upper s && existsb is_lower s.

(** polymod on 5-bit values, uint32 arithmetic *)
Definition gen (i : nat) : N :=
  match i with
  | 0%nat => 996825010 (* 0x3b6a57b2 *)
  | 1%nat => 642813549 (* 0x26508e6d *)
  | 2%nat => 513874426 (* 0x1ea119fa *)
  | 3%nat => 1027748829 (* 0x3d4233dd *)
  | _ => 705979059 (* 0x2a1462b3 *)
  end.

Definition polymod_step (chk v : N) : N :=
  let top := N.shiftr chk 25 in
  let c0 := N.lxor (N.shiftl (N.land chk 33554431) 5) v in
  let x (i : nat) (c : N) := if N.testbit top (N.of_nat i) then N.lxor c (gen i) else c in
  x 4%nat (x 3%nat (x 2%nat (x 1%nat (x 0%nat c0)))).

Definition polymod (values : list N) : N := fold_left polymod_step values 1.

Definition hrp_expand (hrp : bytes) : list N :=
  let h := lower hrp in
  map (fun c => N.shiftr (b2n c) 5) h ++ [0] ++ map (fun c => N.land (b2n c) 31) h.

Definition verify_checksum (hrp : bytes) (data : list N) : bool :=
  N.eqb (polymod (hrp_expand hrp ++ data)) 1.

Definition create_checksum (hrp : bytes) (data : list N) : list N :=
  let m := N.lxor (polymod (hrp_expand hrp ++ data ++ [0; 0; 0; 0; 0; 0])) 1 in
  map (fun p => N.land (N.shiftr m (5 * (5 - N.of_nat p))) 31) (seq 0 6).

(** convertBits with a uint32 accumulator.  [Err] for a value out of range
    (cannot happen for the callers below) and for bad padding. *)
Definition u32 (n : N) : N := n mod 4294967296.

Fixpoint cb_drain (fuel : nat) (tobits : N) (acc bits : N) (out : list N) : N * list N :=
  match fuel with
  | O => (bits, out)
  | S f =>
      if N.leb tobits bits then
        let bits' := bits - tobits in
        cb_drain f tobits acc bits' (out ++ [N.land (N.shiftr acc bits') (2 ^ tobits - 1)])
      else (bits, out)
  end.

Fixpoint cb_loop (frombits tobits : N) (data : list N) (acc bits : N) (out : list N)
  : option (N * N * list N) :=
  match data with
  | [] => Some (acc, bits, out)
  | v :: rest =>
      if negb (N.eqb (N.shiftr v frombits) 0) then None else
      let acc' := u32 (N.lor (N.shiftl acc frombits) v) in
      let '(bits', out') := cb_drain 8 tobits acc' (bits + frombits) out in
      cb_loop frombits tobits rest acc' bits' out'
  end.

Definition convert_bits (data : list N) (frombits tobits : N) (pad : bool) : option (list N) :=
  match cb_loop frombits tobits data 0 0 [] with
  | None => None
  | Some (acc, bits, out) =>
      let maxv := 2 ^ tobits - 1 in
      if pad then
        if N.ltb 0 bits
        then Some (out ++ [N.land (u32 (N.shiftl acc (tobits - bits))) maxv mod 256])
        else Some out
      else if N.leb frombits bits then None
      else if negb (N.eqb (N.land (u32 (N.shiftl acc (tobits - bits)) mod 256) maxv) 0) then None
      else Some out
  end.

Fixpoint index_of (c : byte) (l : bytes) (i : N) : option N :=
  match l with
  | [] => None
  | x :: r => if Byte.eqb c x then Some i else index_of c r (i + 1)
  end.
Definition charset_index (c : byte) : option N := index_of c charset 0.
Definition charset_at (v : N) : byte := nth (N.to_nat v) charset x00.

Fixpoint last_index (c : byte) (s : bytes) (i : nat) (found : option nat) : option nat :=
  match s with
  | [] => found
  | x :: r => last_index c r (S i) (if Byte.eqb x c then Some i else found)
  end.

Fixpoint map_opt {A B} (f : A -> option B) (l : list A) : option (list B) :=
  match l with
  | [] => Some []
  | x :: r => match f x, map_opt f r with
              | Some y, Some ys => Some (y :: ys)
              | _, _ => None
              end
  end.

Definition one : byte := x31.

(** bech32.Encode *)
Definition encode (hrp : bytes) (data : bytes) : option bytes :=
  match convert_bits (map b2n data) 8 5 true with
  | None => None
  | Some values =>
      match hrp with
      | [] => None
      | _ =>
          if negb (forallb printable hrp) then None
          else if mixed_case hrp then None
          else
            let is_low := bytes_eqb (lower hrp) hrp in
            let h := lower hrp in
            let out := h ++ [one] ++ map charset_at values
                         ++ map charset_at (create_checksum h values) in
            Some (if is_low then out else upper out)
      end
  end.

(** bech32.Decode.  The slice [data[:len(data)-6]] is a checked one: [Panic 1]
    if fewer than 6 symbols were collected. *)
Definition decode (s : bytes) : res (bytes * bytes) :=
  if negb (forallb printable s) then Err EOther
  else if mixed_case s then Err EOther
  else
    match last_index one s 0 None with
    | None => Err EOther
    | Some pos =>
        if Nat.ltb pos 1 || Nat.ltb (length s) (pos + 7) then Err EOther else
        let hrp := firstn pos s in
        match map_opt charset_index (skipn (S pos) (lower s)) with
        | None => Err EOther
        | Some data =>
            if negb (verify_checksum hrp data) then Err EOther
            else if Nat.ltb (length data) 6 then Panic 1
            else
              match convert_bits (firstn (length data - 6) data) 5 8 false with
              | None => Err EOther
              | Some bytes5 => Ok (hrp, map n2b bytes5)
              end
        end
    end.

(** * Key strings *)

Definition hrp_age : bytes := Eval cbv in bs "age".
Definition hrp_secret : bytes := Eval cbv in bs "AGE-SECRET-KEY-".
Definition pfx_plugin_id : bytes := Eval cbv in bs "AGE-PLUGIN-".
Definition pfx_plugin_rcpt : bytes := Eval cbv in bs "age1".
Definition dash : byte := x2d.

(** age.ParseX25519Recipient / X25519Recipient.String *)
Definition parse_recipient (s : bytes) : res bytes :=
  let* (hrp, k) := decode s in
  if negb (bytes_eqb hrp hrp_age) then Err EOther
  else if negb (Nat.eqb (length k) 32) then Err EOther
  else Ok k.
Definition recipient_string (k : bytes) : option bytes := encode hrp_age k.

(** age.ParseX25519Identity / X25519Identity.String *)
Definition parse_identity (s : bytes) : res bytes :=
  let* (hrp, k) := decode s in
  if negb (bytes_eqb hrp hrp_secret) then Err EOther
  else if negb (Nat.eqb (length k) 32) then Err EOther
  else Ok k.
Definition identity_string (k : bytes) : option bytes :=
  match encode hrp_secret k with Some s => Some (upper s) | None => None end.

(** plugin.validPluginName *)
Definition plugin_char (c : byte) : bool :=
  is_lower c || is_upper c || (N.leb 48 (b2n c) && N.leb (b2n c) 57)
  || Byte.eqb c x2b || Byte.eqb c x2d || Byte.eqb c x2e || Byte.eqb c x5f.
Definition valid_plugin_name (n : bytes) : bool :=
  match n with [] => false | _ => forallb plugin_char n end.

Fixpoint strip_prefix (p s : bytes) : option bytes :=
  match p, s with
  | [], _ => Some s
  | x :: p', y :: s' => if Byte.eqb x y then strip_prefix p' s' else None
  | _ :: _, [] => None
  end.
Definition strip_suffix_byte (c : byte) (s : bytes) : option bytes :=
  match rev s with
  | x :: r => if Byte.eqb x c then Some (rev r) else None
  | [] => None
  end.

(** plugin.EncodeIdentity / ParseIdentity ("" is modelled as None) *)
Definition encode_plugin_identity (name data : bytes) : option bytes :=
  if valid_plugin_name name
  then encode (pfx_plugin_id ++ upper name ++ [dash]) data
  else None.
Definition parse_plugin_identity (s : bytes) : res (bytes * bytes) :=
  let* (hrp, data) := decode s in
  match strip_prefix pfx_plugin_id hrp with
  | None => Err EOther
  | Some r =>
      (* HasSuffix(hrp, "-") is tested on the whole hrp; TrimSuffix on the rest *)
      match strip_suffix_byte dash hrp with
      | None => Err EOther
      | Some _ =>
          let name := lower (match strip_suffix_byte dash r with Some n => n | None => r end) in
          if valid_plugin_name name then Ok (name, data) else Err EOther
      end
  end.

(** plugin.EncodeRecipient / ParseRecipient *)
Definition encode_plugin_recipient (name data : bytes) : option bytes :=
  if valid_plugin_name name
  then encode (pfx_plugin_rcpt ++ lower name) data
  else None.
Definition parse_plugin_recipient (s : bytes) : res (bytes * bytes) :=
  let* (hrp, data) := decode s in
  match strip_prefix pfx_plugin_rcpt hrp with
  | None => Err EOther
  | Some name => if valid_plugin_name name then Ok (name, data) else Err EOther
  end.

(** plugin.NewIdentityWithoutData(name): the encoding it stores, or failure. *)
Definition new_identity_without_data (name : bytes) : option bytes :=
  encode_plugin_identity name [].

(** The executable the client asks the PATH lookup for. *)
Definition plugin_exe (name : bytes) : bytes := Eval cbv in (fun n => bs "age-plugin-" ++ n) name.

(** Number of positions at which two strings differ (equal lengths intended). *)
Fixpoint hamming (a b : bytes) : nat :=
  match a, b with
  | x :: a', y :: b' => (if Byte.eqb x y then 0 else 1) + hamming a' b'
  | _, _ => 0
  end.
