(** Format.v — model of internal/format/format.go: stanza and header
    marshalling, [StanzaReader.ReadStanza] and [Parse].

    The input is handled as the list of its LF-separated lines
    ([split_on LF]); the last element of that list is the unterminated tail,
    which the Go code can never consume as a line ([ReadBytes('\n')] returns
    io.EOF for it).  The payload is the exact remainder, re-joined. *)

From Age Require Import Base Base64.

Record stanza := mkStanza { st_type : bytes; st_args : list bytes; st_body : bytes }.
Record header := mkHeader { h_stanzas : list stanza; h_mac : bytes }.

Definition intro_line : bytes := Eval cbv in bs "age-encryption.org/v1".
Definition stanza_prefix : bytes := Eval cbv in bs "->".
Definition footer_prefix : bytes := Eval cbv in bs "---".

Definition bytes_per_line : nat := 48.
Definition columns_per_line : nat := 64.

(** isValidString: non-empty, every byte in 33..126 (bytes >= 0x80 decode to a
    rune above 126 or to U+FFFD, which the Go loop rejects as well). *)
Definition vchar (b : byte) : bool := N.leb 33 (b2n b) && N.leb (b2n b) 126.
Definition valid_string (s : bytes) : bool :=
  match s with [] => false | _ => forallb vchar s end.

(** * Marshalling *)

(** The body split in 48-byte pieces, closed by a piece shorter than 48 bytes
    (possibly empty): "a stanza body always ends with a short line". *)
Fixpoint split_body_fuel (fuel : nat) (b : bytes) : list bytes :=
  match fuel with
  | O => [b]
  | S f =>
      if Nat.ltb (length b) bytes_per_line then [b]
      else firstn bytes_per_line b :: split_body_fuel f (skipn bytes_per_line b)
  end.
Definition split_body (b : bytes) : list bytes := split_body_fuel (length b) b.

Definition line (l : bytes) : bytes := l ++ [LF].

Definition marshal_args (ty : bytes) (args : list bytes) : bytes :=
  concat (map (fun a => SP :: a) (ty :: args)).

Definition marshal_stanza (s : stanza) : bytes :=
  stanza_prefix ++ marshal_args (st_type s) (st_args s) ++ [LF]
  ++ concat (map (fun l => line (b64_enc_raw l)) (split_body (st_body s))).

Definition marshal_without_mac (stanzas : list stanza) : bytes :=
  line intro_line ++ concat (map marshal_stanza stanzas) ++ footer_prefix.

Definition marshal (h : header) : bytes :=
  marshal_without_mac (h_stanzas h) ++ SP :: b64_enc_raw (h_mac h) ++ [LF].

(** * Parsing *)

(** splitArgs on one line (its LF already removed). *)
Definition split_args (l : bytes) : bytes * list bytes :=
  match split_on SP l with
  | p :: args => (p, args)
  | [] => ([], [])
  end.

(** Body lines of one stanza.  [ls] always ends with the unterminated tail,
    so a body line can only be taken from a list of at least two elements. *)
Fixpoint read_body (ls : list bytes) (acc : bytes) : res (bytes * list bytes) :=
  match ls with
  | [] => Err EHeader
  | [_] => Err EHeader
  | l :: rest =>
      match b64_dec_raw l with
      | None => Err EHeader
      | Some b =>
          if Nat.ltb bytes_per_line (length b) then Err EHeader
          else if Nat.ltb (length b) bytes_per_line then Ok (acc ++ b, rest)
          else read_body rest (acc ++ b)
      end
  end.

(** StanzaReader.ReadStanza *)
Definition read_stanza (ls : list bytes) : res (stanza * list bytes) :=
  match ls with
  | [] => Err EHeader
  | [_] => Err EHeader
  | l :: rest =>
      if negb (is_prefix stanza_prefix l) then Err EHeader else
      let (p, args) := split_args l in
      if negb (bytes_eqb p stanza_prefix) then Err EHeader else
      match args with
      | [] => Err EHeader
      | ty :: args' =>
          if negb (forallb valid_string args) then Err EHeader else
          let* (body, rest') := read_body rest [] in
          Ok (mkStanza ty args' body, rest')
      end
  end.

Definition parse_footer (l : bytes) : res bytes :=
  let (p, args) := split_args l in
  if negb (bytes_eqb p footer_prefix) then Err EHeader else
  match args with
  | [m] =>
      match b64_dec_raw m with
      | Some mac => if Nat.eqb (length mac) 32 then Ok mac else Err EHeader
      | None => Err EHeader
      end
  | _ => Err EHeader
  end.

(** The stanza loop of Parse.  Fuel: every iteration consumes at least two
    lines, so [length ls] iterations are enough; running out of fuel is
    reported as [Err EOther] and proved unreachable (FormatFacts). *)
Fixpoint parse_stanzas (fuel : nat) (ls : list bytes) (acc : list stanza)
  : res (header * list bytes) :=
  match fuel with
  | O => Err EOther
  | S f =>
      match ls with
      | [] => Err EHeader
      | [_] => Err EHeader
      | l :: rest =>
          if is_prefix footer_prefix l then
            let* mac := parse_footer l in Ok (mkHeader acc mac, rest)
          else
            let* (s, rest') := read_stanza ls in
            parse_stanzas f rest' (acc ++ [s])
      end
  end.

Definition parse_lines (ls : list bytes) : res (header * list bytes) :=
  match ls with
  | l0 :: rest =>
      if bytes_eqb l0 intro_line then parse_stanzas (S (length rest)) rest [] else Err EHeader
  | [] => Err EHeader
  end.

(** format.Parse: header and the payload (the unread remainder). *)
Definition parse (input : bytes) : res (header * bytes) :=
  let* (h, rest) := parse_lines (split_on LF input) in
  Ok (h, join_on LF rest).

(** A single stanza from a byte stream (what the plugin client reads). *)
Definition read_stanza_bytes (input : bytes) : res (stanza * bytes) :=
  let* (s, rest) := read_stanza (split_on LF input) in
  Ok (s, join_on LF rest).

(** Well-formed headers: what Marshal is specified for. *)
Definition wf_stanza (s : stanza) : bool :=
  valid_string (st_type s) && forallb valid_string (st_args s).
Definition wf_header (h : header) : bool :=
  forallb wf_stanza (h_stanzas h) && Nat.eqb (length (h_mac h)) 32.
