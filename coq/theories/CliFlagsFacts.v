(** CliFlagsFacts.v — what the flag validation of CliFlags.v amounts to. *)
From Age Require Import Base Cli CliFlags.
From Coq Require Import Lia Bool.

Lemma pos_true : forall n, pos n = true <-> (0 < n)%nat.
Proof. intro n. unfold pos. apply Nat.ltb_lt. Qed.
Lemma pos_false : forall n, pos n = false <-> n = 0%nat.
Proof. intro n. unfold pos. rewrite Nat.ltb_ge. lia. Qed.

(** Decryption is selected exactly by: -d, at most one input, and none of
    -e -a -p -r -R. *)
Lemma validate_decrypt_iff : forall f,
  validate f = VDecrypt <->
  f_version f = false /\ (f_args f <= 1)%nat /\ f_d f = true /\
  f_e f = false /\ f_a f = false /\ f_p f = false /\ f_r f = 0%nat /\ f_R f = 0%nat.
Proof.
  intro f. unfold validate.
  destruct (f_version f); [split; [discriminate | intros [H _]; discriminate]|].
  destruct (Nat.ltb 1 (f_args f)) eqn:Ea.
  - apply Nat.ltb_lt in Ea. split; [discriminate | intros (_ & H & _); lia].
  - apply Nat.ltb_ge in Ea.
    destruct (f_d f).
    + destruct (f_e f); [split; [discriminate | intros (_ & _ & _ & H & _); discriminate]|].
      destruct (f_a f); [split; [discriminate | intros (_ & _ & _ & _ & H & _); discriminate]|].
      destruct (f_p f); [split; [discriminate | intros (_ & _ & _ & _ & _ & H & _); discriminate]|].
      destruct (pos (f_r f)) eqn:Er.
      { apply pos_true in Er. split; [discriminate | intros (_ & _ & _ & _ & _ & _ & H & _); lia]. }
      apply pos_false in Er.
      destruct (pos (f_R f)) eqn:ER.
      { apply pos_true in ER. split; [discriminate | intros (_ & _ & _ & _ & _ & _ & _ & H); lia]. }
      apply pos_false in ER. split; [intros _; repeat split; auto | reflexivity].
    + split.
      * destruct (pos (f_i f + f_j f) && negb (f_e f)); [discriminate|].
        destruct (Nat.eqb (f_r f + f_R f + (f_i f + f_j f)) 0 && negb (f_p f)); [discriminate|].
        destruct (pos (f_r f) && f_p f); [discriminate|].
        destruct (pos (f_R f) && f_p f); [discriminate|].
        destruct (pos (f_i f + f_j f) && f_p f); discriminate.
      * intros (_ & _ & H & _). discriminate.
Qed.

(** Encryption is selected exactly by: no -d, at most one input, identities
    only together with -e, and either a passphrase alone or at least one
    recipient / recipients file / identity and no passphrase. *)
Lemma validate_encrypt_iff : forall f,
  validate f = VEncrypt <->
  f_version f = false /\ (f_args f <= 1)%nat /\ f_d f = false /\
  ((0 < f_i f + f_j f)%nat -> f_e f = true) /\
  ((f_p f = true /\ f_r f = 0 /\ f_R f = 0 /\ f_i f + f_j f = 0)%nat \/
   (f_p f = false /\ (0 < f_r f + f_R f + (f_i f + f_j f))%nat)).
Proof.
  intro f. unfold validate.
  destruct (f_version f); [split; [discriminate | intros [H _]; discriminate]|].
  destruct (Nat.ltb 1 (f_args f)) eqn:Ea.
  - apply Nat.ltb_lt in Ea. split; [discriminate | intros (_ & H & _); lia].
  - apply Nat.ltb_ge in Ea.
    destruct (f_d f).
    + split.
      * destruct (f_e f); [discriminate|]. destruct (f_a f); [discriminate|].
        destruct (f_p f); [discriminate|]. destruct (pos (f_r f)); [discriminate|].
        destruct (pos (f_R f)); discriminate.
      * intros (_ & _ & H & _). discriminate.
    + set (ids := (f_i f + f_j f)%nat).
      destruct (pos ids) eqn:Ei; [apply pos_true in Ei | apply pos_false in Ei];
      destruct (f_e f) eqn:Ee; destruct (f_p f) eqn:Ep;
      destruct (pos (f_r f)) eqn:Er; [apply pos_true in Er | apply pos_false in Er | apply pos_true in Er | apply pos_false in Er
                                     | apply pos_true in Er | apply pos_false in Er | apply pos_true in Er | apply pos_false in Er
                                     | apply pos_true in Er | apply pos_false in Er | apply pos_true in Er | apply pos_false in Er
                                     | apply pos_true in Er | apply pos_false in Er | apply pos_true in Er | apply pos_false in Er];
      destruct (pos (f_R f)) eqn:ER;
      try (apply pos_true in ER); try (apply pos_false in ER);
      cbn [andb negb];
      try (replace (Nat.eqb (f_r f + f_R f + ids) 0) with false by (symmetry; apply Nat.eqb_neq; lia));
      try (replace (Nat.eqb (f_r f + f_R f + ids) 0) with true by (symmetry; apply Nat.eqb_eq; lia));
      cbn [andb negb];
      (split; [try discriminate; intros _; repeat split; auto; try lia; try (intro; lia);
               first [ left; repeat split; auto; lia | right; split; auto; lia ]
              | intros (_ & _ & _ & Hi & [(Hp & H1 & H2 & H3) | (Hp & H1)]);
                try reflexivity; try discriminate; try lia;
                try (specialize (Hi ltac:(lia)); discriminate) ]).
Qed.

(** Everything else (but --version) is refused, and a refusal touches nothing. *)
Lemma run_rejected_untouched : forall f why prev d ld le,
  validate f = VReject why -> run_cli f prev d ld le = (false, prev).
Proof. intros f why prev d ld le H. unfold run_cli. rewrite H. reflexivity. Qed.

Lemma run_version : forall f prev d ld le,
  f_version f = true -> run_cli f prev d ld le = (true, prev).
Proof. intros f prev d ld le H. unfold run_cli, validate. rewrite H. reflexivity. Qed.

(** Exit status 0 needs an accepted combination, and then is the delivery rule
    of the selected mode. *)
Lemma run_exit0_inv : forall f prev d ld le st,
  run_cli f prev d ld le = (true, st) ->
  (validate f = VVersion /\ st = prev) \/
  (validate f = VDecrypt /\ decrypt_cli prev d ld = (true, st)) \/
  (validate f = VEncrypt /\ encrypt_cli prev d le = (true, st)).
Proof.
  intros f prev d ld le st H. unfold run_cli in H.
  destruct (validate f) eqn:E.
  - left. injection H as <-. auto.
  - discriminate.
  - right. left. auto.
  - right. right. auto.
Qed.

(** The mode depends on -d alone among accepted combinations. *)
Lemma mode_by_d : forall f,
  (validate f = VDecrypt -> f_d f = true) /\ (validate f = VEncrypt -> f_d f = false).
Proof.
  intro f. split; intro H.
  - apply validate_decrypt_iff in H. tauto.
  - apply validate_encrypt_iff in H. tauto.
Qed.

(** Non-vacuity: each verdict is reachable. *)
Example validate_examples :
  validate (mkFlags false true false false false 0 0 1 0 1) = VDecrypt /\
  validate (mkFlags false false false false true 2 1 0 0 0) = VEncrypt /\
  validate (mkFlags false false true false false 0 0 1 1 1) = VEncrypt /\
  validate (mkFlags false false false true false 0 0 0 0 1) = VEncrypt /\
  validate (mkFlags false false false true false 1 0 0 0 1) = VReject REncPassWithRecipient /\
  validate (mkFlags false true false false true 0 0 1 0 1) = VReject RDecArmor /\
  validate (mkFlags false false false false false 0 0 1 0 1) = VReject REncIdentityWithoutE /\
  validate (mkFlags false false false false false 0 0 0 0 0) = VReject REncMissingRecipients /\
  validate (mkFlags false true false false false 0 0 1 0 2) = VReject RTooManyArgs.
Proof. repeat split. Qed.
