(** Age.v — model of age.go: Encrypt (file key, wrapping, label rule, header
    MAC, header and nonce written to the destination, then the STREAM writer)
    and Decrypt (header parse, identity loop, MAC check, nonce, STREAM reader),
    over abstract primitives [P] and an explicit random tape. *)

From Age Require Import Base Base64 Format FormatIO IO Stream Armor Prims Recipients.
Local Open Scope N_scope.

Definition header_info : bytes := Eval cbv in bs "header".
Definition payload_info : bytes := Eval cbv in bs "payload".
Definition stream_nonce_size : nat := 16.

(** sort.Strings on labels: bytewise lexicographic order, insertion sort. *)
Fixpoint bytes_leb (a b : bytes) : bool :=
  match a, b with
  | [], _ => true
  | _ :: _, [] => false
  | x :: a', y :: b' =>
      if N.ltb (b2n x) (b2n y) then true
      else if N.ltb (b2n y) (b2n x) then false
      else bytes_leb a' b'
  end.
Fixpoint insert_label (x : bytes) (l : list bytes) : list bytes :=
  match l with
  | [] => [x]
  | y :: r => if bytes_leb x y then x :: l else y :: insert_label x r
  end.
Definition sort_labels (l : list bytes) : list bytes := fold_right insert_label [] l.

Fixpoint labels_eqb (a b : list bytes) : bool :=
  match a, b with
  | [], [] => true
  | x :: a', y :: b' => bytes_eqb x y && labels_eqb a' b'
  | _, _ => false
  end.

(** The label rule of Encrypt on the label lists the recipients returned:
    every sorted list equals the first sorted list. *)
Definition label_rule (ls : list (list bytes)) : bool :=
  match ls with
  | [] => true
  | l0 :: rest => forallb (fun l => labels_eqb (sort_labels l0) (sort_labels l)) rest
  end.

(** Two label lists denote the same set. *)
Definition same_set (a b : list bytes) : Prop := forall x, In x a <-> In x b.

(** How many tape bytes a recipient's wrap draws. *)
Definition tape_need (r : recipient) : nat :=
  match r with
  | RX25519 _ | RSshEd _ _ | RSshRsa _ => 32
  | RScrypt _ _ => 32          (* 16 salt + 16 label *)
  | RStub _ _ _ => 0
  end.

Section WithPrims.
  Variable P : Prims.

  Definition header_mac (fk : bytes) (stanzas : list stanza) : bytes :=
    hmac P (hkdf32 P fk [] header_info) (marshal_without_mac stanzas).

  Definition stream_key (fk nonce : bytes) : bytes := hkdf32 P fk nonce payload_info.

  (** The recipient loop of Encrypt: wrap for each recipient, apply the label
      rule.  [labels = None] before the first recipient. *)
  Fixpoint wrap_all (rs : list recipient) (fk tape : bytes) (labels : option (list bytes))
           (acc : list stanza) : res (list stanza * bytes) :=
    match rs with
    | [] => Ok (acc, tape)
    | r :: rest =>
        match wrap P r fk tape with
        | Ok (st, l, tape') =>
            let l' := sort_labels l in
            match labels with
            | None => wrap_all rest fk tape' (Some l') (acc ++ st)
            | Some l0 =>
                if labels_eqb l0 l' then wrap_all rest fk tape' labels (acc ++ st)
                else Err ELabels
            end
        | Err EOther => Err EOther                (* rand.Read failed *)
        | Err _ => Err EFatal
        | Panic n => Panic n
        end
    end.

  (** All the wraps without the label rule (stops at the first wrap error):
      per recipient, its stanzas and its labels. *)
  Fixpoint wrap_each (rs : list recipient) (fk tape : bytes)
    : res (list (list stanza * list bytes) * bytes) :=
    match rs with
    | [] => Ok ([], tape)
    | r :: rest =>
        match wrap P r fk tape with
        | Ok (st, l, tape') =>
            let* (more, tape'') := wrap_each rest fk tape' in Ok ((st, l) :: more, tape'')
        | Err EOther => Err EOther
        | Err _ => Err EFatal
        | Panic n => Panic n
        end
    end.

  (** Everything Encrypt computes before touching the destination. *)
  Record enc_plan := mkPlan {
    ep_file_key : bytes;
    ep_stanzas  : list stanza;
    ep_header   : header;
    ep_nonce    : bytes;
    ep_tape     : bytes            (* tape left *)
  }.

  Definition plan_encrypt (rs : list recipient) (tape : bytes) : res enc_plan :=
    match rs with
    | [] => Err EArgs
    | _ =>
        match take file_key_size tape with
        | None => Err EOther
        | Some (fk, tape1) =>
            let* (stanzas, tape2) := wrap_all rs fk tape1 None [] in
            let h := mkHeader stanzas (header_mac fk stanzas) in
            (* the header is written here; then the nonce is drawn *)
            match take stream_nonce_size tape2 with
            | None => Err EOther
            | Some (nonce, tape3) => Ok (mkPlan fk stanzas h nonce tape3)
            end
        end
    end.

  (** The bytes of a complete file for plaintext [p] (chunk size [cs]). *)
  Definition file_bytes (cs : nat) (pl : enc_plan) (p : bytes) : bytes :=
    marshal (ep_header pl) ++ ep_nonce pl
    ++ encrypt_spec cs (aead_seal P (stream_key (ep_file_key pl) (ep_nonce pl))) p.

  Definition encrypt_bytes (cs : nat) (rs : list recipient) (tape p : bytes) : res bytes :=
    let* pl := plan_encrypt rs tape in Ok (file_bytes cs pl p).

  (** ** Encrypt as the code runs it against a destination *)
  Section Dest.
    Variable D : Type.
    Variable dwrite : D -> bytes -> D * bool.

    Fixpoint dwrites (d : D) (ps : list bytes) : D * bool :=
      match ps with
      | [] => (d, true)
      | p :: rest =>
          let (d', ok) := dwrite d p in
          if ok then dwrites d' rest else (d', false)
      end.

    (** age.Encrypt(dst, rs...): an error, or the stream writer state.  Note
        the order: all wrapping (and the label rule) happens before the first
        byte is written; the nonce is drawn after the header was written. *)
    Definition encrypt_open (rs : list recipient) (tape : bytes) (d : D)
      : res (enc_plan * D) * D :=
      match rs with
      | [] => (Err EArgs, d)
      | _ =>
          match take file_key_size tape with
          | None => (Err EOther, d)
          | Some (fk, tape1) =>
              match wrap_all rs fk tape1 None [] with
              | Err c => (Err c, d)
              | Panic n => (Panic n, d)
              | Ok (stanzas, tape2) =>
                  let h := mkHeader stanzas (header_mac fk stanzas) in
                  let (d1, ok1) := dwrites d (header_writes h) in
                  if negb ok1 then (Err EIo, d1) else
                  match take stream_nonce_size tape2 with
                  | None => (Err EOther, d1)
                  | Some (nonce, tape3) =>
                      let (d2, ok2) := dwrite d1 nonce in
                      if negb ok2 then (Err EIo, d2)
                      else (Ok (mkPlan fk stanzas h nonce tape3, d2), d2)
                  end
              end
          end
      end.

    (** Encrypt; Write*; Close.  Results: did Encrypt succeed, then one flag per
        Write and one for Close. *)
    Definition encrypt_session (cs : nat) (rs : list recipient) (tape : bytes) (d : D)
               (ws : list bytes) : res (D * bool * list bool) :=
      match encrypt_open rs tape d with
      | (Ok (pl, d1), _) =>
          let key := stream_key (ep_file_key pl) (ep_nonce pl) in
          let* (w, d2, oks) := w_run cs (aead_seal P key) D dwrite w_init d1 ws [] in
          Ok (d2, true, oks)
      | (Err _, d1) => Ok (d1, false, [])
      | (Panic n, _) => Panic n
      end.
  End Dest.

  (** Encrypt into an armor writer over [dwrite]; the caller closes the
      stream writer (last operation of [encrypt_session]) and then the armor
      writer.  Results: Encrypt ok?, one flag per Write and one for the stream
      Close, and the armor Close. *)
  Section ArmoredDest.
    Variable D : Type.
    Variable dwrite : D -> bytes -> D * bool.

    Definition armored_dwrite (ad : awstate * D) (p : bytes) : (awstate * D) * bool :=
      let '(a', d', ok) := aw_write D dwrite (fst ad) (snd ad) p in ((a', d'), ok).

    Definition armored_session (cs : nat) (rs : list recipient) (tape : bytes) (d : D)
               (ws : list bytes) : res (D * bool * list bool * bool) :=
      let* (ad, eok, oks) :=
        encrypt_session (awstate * D) armored_dwrite cs rs tape (aw_init, d) ws in
      let '(a', d', cok) := aw_close D dwrite (fst ad) (snd ad) in
      Ok (d', eok, oks, cok).
  End ArmoredDest.

  (** A process history: several files encrypted one after the other from the
      same random tape. *)
  Fixpoint encrypt_history (rss : list (list recipient)) (tape : bytes)
    : res (list enc_plan * bytes) :=
    match rss with
    | [] => Ok ([], tape)
    | rs :: rest =>
        let* pl := plan_encrypt rs tape in
        let* (pls, tape') := encrypt_history rest (ep_tape pl) in
        Ok (pl :: pls, tape')
    end.

  (** ** Decrypt *)

  (** The identity loop: identities are consulted in order; the first answer
      that is not "incorrect identity" ends the loop.  Returns the result, the
      number of identities consulted, the errors collected, the scrypt work
      factors derived. *)
  Fixpoint identity_loop (ids : list identity) (ss : list stanza) (consulted : nat)
           (errs : nat) (work : list N) : res bytes * nat * nat * list N :=
    match ids with
    | [] => (Err ENoMatch, consulted, errs, work)
    | i :: rest =>
        match unwrap P i ss with
        | (Err EIncorrect, w) => identity_loop rest ss (S consulted) (S errs) (work ++ w)
        | (Ok [], w) =>
            (* a nil file key with a nil error ends the loop; Decrypt then
               reports errNoMatch *)
            (Err ENoMatch, S consulted, errs, work ++ w)
        | (Ok fk, w) => (Ok fk, S consulted, errs, work ++ w)
        | (Err c, w) => (Err EFatal, S consulted, errs, work ++ w)
        | (Panic n, w) => (Panic n, S consulted, errs, work ++ w)
        end
    end.

  Record dec_open := mkDecOpen {
    do_key       : bytes;          (* stream key *)
    do_payload   : bytes;          (* what follows the nonce *)
    do_file_key  : bytes;
    do_consulted : nat
  }.

  (** age.Decrypt(src, ids...) on the whole input: an error and no reader, or
      what the reader will run on.  Also: identities consulted, errors
      collected in NoIdentityMatchError, scrypt derivations. *)
  Definition decrypt_open (ids : list identity) (file : bytes)
    : res dec_open * nat * nat * list N :=
    match ids with
    | [] => (Err EArgs, 0%nat, 0%nat, [])
    | _ =>
        match parse file with
        | Err c => (Err EHeader, 0%nat, 0%nat, [])
        | Panic n => (Panic n, 0%nat, 0%nat, [])
        | Ok (h, payload) =>
            match identity_loop ids (h_stanzas h) 0 0 [] with
            | (Ok fk, n, e, w) =>
                if negb (bytes_eqb (header_mac fk (h_stanzas h)) (h_mac h))
                then (Err EMac, n, e, w)
                else if Nat.ltb (length payload) stream_nonce_size
                then (Err ENonce, n, e, w)
                else
                  let nonce := firstn stream_nonce_size payload in
                  (Ok (mkDecOpen (stream_key fk nonce) (skipn stream_nonce_size payload) fk n),
                   n, e, w)
            | (Err c, n, e, w) => (Err c, n, e, w)
            | (Panic k, n, e, w) => (Panic k, n, e, w)
            end
        end
    end.

  (** Decrypt and read to the end: plaintext released and how it ended. *)
  Definition decrypt_bytes (cs : nat) (ids : list identity) (file : bytes)
    : res (bytes * outcome) :=
    match decrypt_open ids file with
    | (Ok o, _, _, _) =>
        let '(p, oc, _) := decrypt_spec cs (aead_open P (do_key o)) (do_payload o) in
        Ok (p, oc)
    | (Err c, _, _, _) => Err c
    | (Panic n, _, _, _) => Panic n
    end.

  (** Decrypt reading from a source with a delivery schedule and possibly a
      sticky fault.  The header and the nonce are read through bufio and
      io.ReadFull, whose results depend only on the bytes the source delivers
      before failing ([src_content]); the STREAM reader then runs on the rest
      of the source (any schedule: see C12_read_sched_indep). *)
  Definition decrypt_src (cs : nat) (ids : list identity) (s : src) (caps : list nat) (dflt : nat)
    : res (bytes * outcome) :=
    match decrypt_open ids (src_content s) with
    | (Ok o, _, _, _) =>
        let consumed := (length (src_content s) - length (do_payload o))%nat in
        let s' := mkSrc (skipn consumed (s_data s)) (s_pieces s) (s_eofdata s)
                        (fault_sub (s_fault s) consumed) (s_fclass s) in
        let* (b, oc, _) := run_reader cs (aead_open P (do_key o)) s' caps dflt in
        Ok (b, oc)
    | (Err c, _, _, _) => Err c
    | (Panic n, _, _, _) => Panic n
    end.
End WithPrims.
