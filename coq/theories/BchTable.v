(** BchTable.v — the bech32 checksum detects up to four symbol errors in a
    58-symbol data part (the length of native age key strings).

    Part 1: xor-linearity of [polymod_step].
    Part 2: sparse error patterns and their syndromes.
    Part 3: the syndromes of all 1 590 332 patterns of weight <= 2 over 58
            positions are pairwise distinct: complete enumeration in the
            kernel ([vm_compute], about two minutes, a few GB).
    Part 4: consequence: a non-zero pattern of weight <= 4 has a non-zero
            syndrome ([bch_distance]).

    Lemmas only.  Compile with [ulimit -s unlimited]. *)

From Coq Require Import FMapPositive.
From Age Require Import Base Bech32.
Local Open Scope N_scope.

(** * Part 1: linearity *)

Definition bd_B (c : N) : N := N.shiftl (N.land c 33554431) 5.
Definition bd_G (i : nat) (c : N) : N :=
  if N.testbit (N.shiftr c 25) (N.of_nat i) then gen i else 0.

Definition bd_additive (f : N -> N) : Prop :=
  forall a b, f (N.lxor a b) = N.lxor (f a) (f b).

Lemma bd_lxor_swap4 : forall a b c d,
  N.lxor (N.lxor a b) (N.lxor c d) = N.lxor (N.lxor a c) (N.lxor b d).
Proof.
  intros a b c d.
  rewrite (N.lxor_assoc a b), <- (N.lxor_assoc b c d), (N.lxor_comm b c),
    (N.lxor_assoc c b d), <- (N.lxor_assoc a c). reflexivity.
Qed.

Lemma bd_lxor_right_comm : forall a v g,
  N.lxor (N.lxor a v) g = N.lxor (N.lxor a g) v.
Proof.
  intros a v g. rewrite N.lxor_assoc, (N.lxor_comm v g), <- N.lxor_assoc. reflexivity.
Qed.

Lemma bd_additive_lxor : forall f g,
  bd_additive f -> bd_additive g -> bd_additive (fun c => N.lxor (f c) (g c)).
Proof.
  intros f g Hf Hg a b. rewrite Hf, Hg. apply bd_lxor_swap4.
Qed.

Lemma bd_land_lxor_l : forall a b m,
  N.land (N.lxor a b) m = N.lxor (N.land a m) (N.land b m).
Proof.
  intros a b m. apply N.bits_inj. intro n.
  rewrite N.land_spec, !N.lxor_spec, !N.land_spec.
  destruct (N.testbit a n), (N.testbit b n), (N.testbit m n); reflexivity.
Qed.

Lemma bd_B_additive : bd_additive bd_B.
Proof.
  intros a b. unfold bd_B. rewrite bd_land_lxor_l, N.shiftl_lxor. reflexivity.
Qed.

Lemma bd_G_additive : forall i, bd_additive (bd_G i).
Proof.
  intros i a b. unfold bd_G. rewrite N.shiftr_lxor, N.lxor_spec.
  destruct (N.testbit (N.shiftr a 25) (N.of_nat i)),
           (N.testbit (N.shiftr b 25) (N.of_nat i)); cbn [xorb].
  - symmetry. apply N.lxor_nilpotent.
  - symmetry. apply N.lxor_0_r.
  - symmetry. apply N.lxor_0_l.
  - reflexivity.
Qed.

Definition bd_P (c : N) : N :=
  N.lxor (N.lxor (N.lxor (N.lxor (N.lxor (bd_B c) (bd_G 0 c)) (bd_G 1 c)) (bd_G 2 c))
            (bd_G 3 c)) (bd_G 4 c).

Lemma bd_P_additive : bd_additive bd_P.
Proof.
  unfold bd_P.
  repeat (apply bd_additive_lxor; [ | apply bd_G_additive ]).
  apply bd_B_additive.
Qed.

Lemma bd_sel : forall (t : bool) (c g : N),
  (if t then N.lxor c g else c) = N.lxor c (if t then g else 0).
Proof. intros [|] c g; [ reflexivity | symmetry; apply N.lxor_0_r ]. Qed.

Lemma bd_step_decomp : forall c v, polymod_step c v = N.lxor (bd_P c) v.
Proof.
  intros c v. unfold polymod_step. cbv zeta beta.
  rewrite !bd_sel. fold (bd_B c).
  fold (bd_G 0 c) (bd_G 1 c) (bd_G 2 c) (bd_G 3 c) (bd_G 4 c).
  unfold bd_P.
  rewrite (bd_lxor_right_comm _ v (bd_G 0 c)).
  rewrite (bd_lxor_right_comm _ v (bd_G 1 c)).
  rewrite (bd_lxor_right_comm _ v (bd_G 2 c)).
  rewrite (bd_lxor_right_comm _ v (bd_G 3 c)).
  rewrite (bd_lxor_right_comm _ v (bd_G 4 c)).
  reflexivity.
Qed.

(** (L1) *)
Lemma bd_step_xor : forall a b v w,
  polymod_step (N.lxor a b) (N.lxor v w)
  = N.lxor (polymod_step a v) (polymod_step b w).
Proof.
  intros a b v w. rewrite !bd_step_decomp, bd_P_additive. apply bd_lxor_swap4.
Qed.

Fixpoint bd_zipxor (xs ys : list N) : list N :=
  match xs, ys with
  | x :: xs', y :: ys' => N.lxor x y :: bd_zipxor xs' ys'
  | _, _ => []
  end.

Lemma bd_fold_xor : forall xs ys a b,
  length xs = length ys ->
  fold_left polymod_step (bd_zipxor xs ys) (N.lxor a b)
  = N.lxor (fold_left polymod_step xs a) (fold_left polymod_step ys b).
Proof.
  induction xs as [|x xs IH]; intros [|y ys] a b Hlen; cbn in Hlen; try discriminate.
  - reflexivity.
  - cbn [bd_zipxor fold_left]. rewrite bd_step_xor. apply IH. congruence.
Qed.

(** * Part 2: syndromes *)

Definition lin (vs : list N) : N := fold_left polymod_step vs 0.
Definition sh (c : N) : N := polymod_step c 0.
Fixpoint shn (n : nat) (c : N) : N :=
  match n with O => c | S n' => shn n' (sh c) end.

Lemma bd_P_0 : bd_P 0 = 0.
Proof. reflexivity. Qed.

Lemma bd_step_sh : forall c v, polymod_step c v = N.lxor (sh c) v.
Proof.
  intros c v. unfold sh. rewrite !bd_step_decomp, N.lxor_0_r. reflexivity.
Qed.

Lemma bd_step_0 : forall v, polymod_step 0 v = v.
Proof. intro v. rewrite bd_step_decomp, bd_P_0. apply N.lxor_0_l. Qed.

Lemma bd_sh_0 : sh 0 = 0.
Proof. apply bd_step_0. Qed.

Lemma bd_shn_0 : forall n, shn n 0 = 0.
Proof. induction n as [|n IH]; [ reflexivity | cbn [shn]; rewrite bd_sh_0; exact IH ]. Qed.

Lemma bd_sh_xor : forall a b, sh (N.lxor a b) = N.lxor (sh a) (sh b).
Proof.
  intros a b. unfold sh. rewrite <- bd_step_xor, N.lxor_0_r. reflexivity.
Qed.

Lemma bd_fold_split : forall r a b,
  fold_left polymod_step r (N.lxor a b)
  = N.lxor (fold_left polymod_step r a) (shn (length r) b).
Proof.
  induction r as [|x r IH]; intros a b.
  - reflexivity.
  - cbn [fold_left length shn].
    rewrite (bd_step_sh (N.lxor a b)), bd_sh_xor, bd_lxor_right_comm, <- bd_step_sh.
    apply IH.
Qed.

Lemma bd_lin_cons : forall x r, lin (x :: r) = N.lxor (shn (length r) x) (lin r).
Proof.
  intros x r. unfold lin. cbn [fold_left]. rewrite bd_step_0.
  rewrite <- (N.lxor_0_l x) at 1. rewrite bd_fold_split. apply N.lxor_comm.
Qed.

(** A sparse pattern: (distance from the end, value) pairs. *)
Definition atom := (nat * N)%type.
Definition syn1 (a : atom) : N := shn (fst a) (snd a).
Definition xsyn (p : list atom) : N :=
  fold_right (fun a acc => N.lxor (syn1 a) acc) 0 p.

Fixpoint sparse (e : list N) : list atom :=
  match e with
  | [] => []
  | x :: r => if N.eqb x 0 then sparse r else (length r, x) :: sparse r
  end.

Lemma bd_lin_sparse : forall e, lin e = xsyn (sparse e).
Proof.
  induction e as [|x r IH]; [ reflexivity | ].
  rewrite bd_lin_cons. cbn [sparse].
  destruct (N.eqb x 0) eqn:E.
  - apply N.eqb_eq in E. subst x. rewrite bd_shn_0, N.lxor_0_l. exact IH.
  - cbn [xsyn fold_right]. unfold syn1 at 1. cbn [fst snd]. rewrite IH. reflexivity.
Qed.

Lemma bd_xsyn_app : forall p q, xsyn (p ++ q) = N.lxor (xsyn p) (xsyn q).
Proof.
  induction p as [|a p IH]; intro q.
  - symmetry. apply N.lxor_0_l.
  - cbn [app xsyn fold_right]. fold (xsyn (p ++ q)). fold (xsyn p).
    rewrite IH, N.lxor_assoc. reflexivity.
Qed.

(** * Part 3: the table *)

Definition nd_step (acc : option (PositiveMap.t unit)) (x : N)
  : option (PositiveMap.t unit) :=
  match acc with
  | None => None
  | Some m =>
      let k := N.succ_pos x in
      match PositiveMap.find k m with
      | Some _ => None
      | None => Some (PositiveMap.add k tt m)
      end
  end.

Lemma bd_nd_none : forall l, fold_left nd_step l None = None.
Proof. induction l as [|x l IH]; [ reflexivity | exact IH ]. Qed.

Lemma bd_succ_pos_inj : forall x y, N.succ_pos x = N.succ_pos y -> x = y.
Proof.
  intros x y H. rewrite <- (N.pos_pred_succ x), <- (N.pos_pred_succ y), H. reflexivity.
Qed.

Lemma bd_nd_sound : forall l m m',
  fold_left nd_step l (Some m) = Some m' ->
  NoDup l /\ forall x, In x l -> PositiveMap.find (N.succ_pos x) m = None.
Proof.
  induction l as [|x l IH]; intros m m' H.
  - split; [ constructor | intros y [] ].
  - cbn [fold_left nd_step] in H.
    destruct (PositiveMap.find (N.succ_pos x) m) as [u|] eqn:Ex.
    + rewrite bd_nd_none in H. discriminate.
    + destruct (IH _ _ H) as [Hnd Hfr].
      assert (Hnx : ~ In x l).
      { intro Hin. specialize (Hfr x Hin). rewrite PositiveMap.gss in Hfr. discriminate. }
      split.
      * constructor; assumption.
      * intros y [Hy | Hy].
        -- subst y. exact Ex.
        -- specialize (Hfr y Hy).
           rewrite PositiveMap.gso in Hfr; [ exact Hfr | ].
           intro Heq. apply bd_succ_pos_inj in Heq. subst y. contradiction.
Qed.

Definition nodup_check_from (l : list N) (acc : option (PositiveMap.t unit)) : bool :=
  match fold_left nd_step l acc with Some _ => true | None => false end.

Lemma bd_nodup_check_sound : forall l,
  nodup_check_from l (Some (PositiveMap.empty unit)) = true -> NoDup l.
Proof.
  intros l H. unfold nodup_check_from in H.
  destruct (fold_left nd_step l (Some (PositiveMap.empty unit))) as [m'|] eqn:E;
    [ | discriminate ].
  exact (proj1 (bd_nd_sound _ _ _ E)).
Qed.

Definition npos : nat := 58.
Definition vals : list N := map N.of_nat (seq 1 31).
Definition atoms : list atom :=
  flat_map (fun d => map (fun v => (d, v)) vals) (seq 0 npos).

Lemma bd_fold_left_flat_map : forall (A B C : Type) (f : C -> B -> C) (g : A -> list B) l acc,
  fold_left f (flat_map g l) acc = fold_left (fun acc x => fold_left f (g x) acc) l acc.
Proof.
  intros A B C f g. induction l as [|x l IH]; intro acc.
  - reflexivity.
  - cbn [flat_map fold_left]. rewrite fold_left_app. apply IH.
Qed.

Lemma bd_fold_left_map : forall (A B C : Type) (f : C -> B -> C) (h : A -> B) l acc,
  fold_left f (map h l) acc = fold_left (fun acc x => f acc (h x)) l acc.
Proof.
  intros A B C f h. induction l as [|x l IH]; intro acc; [ reflexivity | apply IH ].
Qed.

Lemma bd_fold_left_ext : forall (A C : Type) (f g : C -> A -> C) l acc,
  (forall c x, f c x = g c x) -> fold_left f l acc = fold_left g l acc.
Proof.
  intros A C f g l. induction l as [|x l IH]; intros acc H; [ reflexivity | ].
  cbn [fold_left]. rewrite H. apply IH. exact H.
Qed.

Lemma bd_filter_map : forall (A B : Type) (p : B -> bool) (h : A -> B) l,
  filter p (map h l) = map h (filter (fun x => p (h x)) l).
Proof.
  intros A B p h. induction l as [|x l IH]; [ reflexivity | ].
  cbn [map filter]. destruct (p (h x)); cbn [map]; rewrite IH; reflexivity.
Qed.

Lemma bd_map_flat_map : forall (A B C : Type) (f : B -> C) (g : A -> list B) l,
  map f (flat_map g l) = flat_map (fun x => map f (g x)) l.
Proof.
  intros A B C f g. induction l as [|x l IH]; [ reflexivity | ].
  cbn [flat_map]. rewrite map_app, IH. reflexivity.
Qed.

Definition good_atom (a : atom) : Prop := (fst a < npos)%nat /\ 1 <= snd a <= 31.

(** valid patterns: good atoms, strictly decreasing positions *)
Fixpoint pat_ok (bound : nat) (p : list atom) : Prop :=
  match p with
  | [] => True
  | a :: r => good_atom a /\ (fst a < bound)%nat /\ pat_ok (fst a) r
  end.

(** Generic in the list of atoms, so that nothing below is tempted to compute. *)
Section Table.
  Variable ats : list atom.

  Definition g_later (a : atom) : list atom :=
    filter (fun b => Nat.ltb (fst b) (fst a)) ats.
  Definition g_all_pats : list (list atom) :=
    [] :: flat_map (fun a => [a] :: map (fun b => [a; b]) (g_later a)) ats.

  (** The fused computation: never builds the list of all syndromes. *)
  Definition g_table : list (nat * N) := map (fun a => (fst a, syn1 a)) ats.
  Definition row (tbl : list (nat * N)) (a : nat * N) : list N :=
    snd a :: map (fun b => N.lxor (snd a) (snd b))
               (filter (fun b => Nat.ltb (fst b) (fst a)) tbl).
  Definition g_check : bool :=
    let tbl := g_table in
    match fold_left (fun acc a => fold_left nd_step (row tbl a) acc) tbl
            (nd_step (Some (PositiveMap.empty unit)) 0)
    with Some _ => true | None => false end.

  Lemma bd_row_eq : forall a,
    row g_table (fst a, syn1 a) = map xsyn ([a] :: map (fun b => [a; b]) (g_later a)).
  Proof.
    intro a. unfold row, g_table, g_later. cbn [fst snd map].
    rewrite bd_filter_map, !map_map. cbn [fst].
    f_equal.
    - cbn [xsyn fold_right]. symmetry. apply N.lxor_0_r.
    - apply map_ext. intro b. cbn [xsyn fold_right snd]. rewrite N.lxor_0_r. reflexivity.
  Qed.

  Lemma bd_check_eq :
    g_check = nodup_check_from (map xsyn g_all_pats) (Some (PositiveMap.empty unit)).
  Proof.
    unfold g_check, nodup_check_from, g_all_pats. cbv zeta.
    cbn [map fold_left]. change (xsyn []) with 0.
    rewrite bd_map_flat_map, bd_fold_left_flat_map.
    unfold g_table at 2. rewrite bd_fold_left_map.
    rewrite (bd_fold_left_ext _ _ _
      (fun acc x => fold_left nd_step
         (map xsyn ([x] :: map (fun b : atom => [x; b]) (g_later x))) acc)).
    - reflexivity.
    - intros c a. rewrite bd_row_eq. reflexivity.
  Qed.

  Hypothesis Hats : forall a, good_atom a -> In a ats.

  Lemma bd_in_later : forall a b, good_atom b -> (fst b < fst a)%nat -> In b (g_later a).
  Proof.
    intros a b Hb Hlt. unfold g_later. apply filter_In. split.
    - apply Hats. exact Hb.
    - apply Nat.ltb_lt. exact Hlt.
  Qed.

  Lemma bd_in_all_pats : forall bound p,
    pat_ok bound p -> (length p <= 2)%nat -> In p g_all_pats.
  Proof.
    intros bound p Hok Hlen. unfold g_all_pats.
    destruct p as [|a [|b [|c r]]].
    - left. reflexivity.
    - right. apply in_flat_map. exists a. destruct Hok as (Ha & _ & _). split.
      + apply Hats. exact Ha.
      + left. reflexivity.
    - right. apply in_flat_map. exists a.
      destruct Hok as (Ha & _ & Hb & Hlt & _). split.
      + apply Hats. exact Ha.
      + right. apply (in_map (fun b0 : atom => [a; b0])). apply bd_in_later; assumption.
    - cbn [length] in Hlen. lia.
  Qed.
End Table.

Notation later := (g_later atoms).
Notation all_pats := (g_all_pats atoms).
(* a notation, not a constant: the kernel must never be asked to compare
   [g_check atoms] with a name for it by unfolding the wrong side *)
Notation all_distinct_check := (g_check atoms).

(** The enumeration.  Checked once, at [Qed]. *)
Lemma weight2_syndromes_nodup : all_distinct_check = true.
Proof. vm_cast_no_check (eq_refl true). Qed.

Lemma bd_all_pats_nodup : NoDup (map xsyn all_pats).
Proof.
  pose proof weight2_syndromes_nodup as H.
  rewrite bd_check_eq in H.
  apply bd_nodup_check_sound in H. exact H.
Qed.

Lemma bd_nodup_map_inj : forall (A B : Type) (f : A -> B) l x y,
  NoDup (map f l) -> In x l -> In y l -> f x = f y -> x = y.
Proof.
  intros A B f. induction l as [|z l IH]; intros x y Hnd Hx Hy Hf; [ destruct Hx | ].
  cbn [map] in Hnd. inversion Hnd as [|? ? Hnin Hnd']; subst.
  destruct Hx as [Hx | Hx], Hy as [Hy | Hy].
  - congruence.
  - subst z. exfalso. apply Hnin. rewrite Hf. apply in_map. exact Hy.
  - subst z. exfalso. apply Hnin. rewrite <- Hf. apply in_map. exact Hx.
  - apply IH; assumption.
Qed.

(** * Part 4: distance *)

Lemma bd_in_vals : forall v, 1 <= v <= 31 -> In v vals.
Proof.
  intros v Hv. unfold vals. apply in_map_iff. exists (N.to_nat v). split.
  - apply N2Nat.id.
  - apply in_seq. lia.
Qed.

Lemma bd_in_atoms : forall a, good_atom a -> In a atoms.
Proof.
  intros [d v] [Hd Hv]. cbn [fst snd] in Hd, Hv. unfold atoms.
  apply in_flat_map. exists d. split.
  - apply in_seq. lia.
  - apply in_map. apply bd_in_vals. exact Hv.
Qed.

Lemma bd_pat_ok_weaken : forall p b b', (b <= b')%nat -> pat_ok b p -> pat_ok b' p.
Proof.
  intros [|a r] b b' Hle H; [ exact I | ].
  destruct H as (Ha & Hlt & Hr). repeat split; try assumption; try apply Ha. lia.
Qed.

Lemma bd_pat_ok_app : forall p q bound,
  pat_ok bound (p ++ q) ->
  pat_ok bound p /\ pat_ok bound q /\
  (forall a b, In a p -> In b q -> (fst b < fst a)%nat).
Proof.
  induction p as [|a p IH]; intros q bound H.
  - cbn [app] in H. repeat split; [ exact H | intros a b [] ].
  - cbn [app pat_ok] in H. destruct H as (Ha & Hlt & Hr).
    destruct (IH _ _ Hr) as (Hp & Hq & Hpq).
    split; [ | split ].
    + cbn [pat_ok]. repeat split; try assumption; apply Ha.
    + apply (bd_pat_ok_weaken q (fst a)); [ lia | exact Hq ].
    + intros a' b [Ha' | Ha'] Hb.
      * subst a'. clear - Hq Hb. destruct q as [|c q]; [ destruct Hb | ].
        revert c a Hq Hb. induction q as [|c' q IHq]; intros c a Hq Hb.
        -- destruct Hb as [Hb | []]. subst b. destruct Hq as (_ & Hlt & _). exact Hlt.
        -- destruct Hb as [Hb | Hb].
           ++ subst b. destruct Hq as (_ & Hlt & _). exact Hlt.
           ++ destruct Hq as (_ & Hlt & Hq').
              specialize (IHq c' c Hq' Hb).
              cbn [pat_ok] in Hq'. lia.
      * apply Hpq; assumption.
Qed.

Definition weight (e : list N) : nat := length (sparse e).

Lemma bd_sparse_ok : forall e,
  (length e <= npos)%nat -> Forall (fun v => v < 32) e -> pat_ok (length e) (sparse e).
Proof.
  induction e as [|x r IH]; intros Hlen Hall; [ exact I | ].
  cbn [length] in Hlen. inversion Hall as [|? ? Hx Hr]; subst.
  cbn [sparse]. destruct (N.eqb x 0) eqn:E.
  - apply (bd_pat_ok_weaken _ (length r)); [ cbn [length]; lia | ].
    apply IH; [ lia | exact Hr ].
  - apply N.eqb_neq in E. cbn [pat_ok fst length]. split; [ | split ].
    + split; cbn [fst snd]; lia.
    + lia.
    + apply IH; [ lia | exact Hr ].
Qed.

(** Distinct patterns of weight <= 2 have distinct syndromes. *)
Lemma bd_weight2_inj : forall b1 b2 p q,
  pat_ok b1 p -> pat_ok b2 q -> (length p <= 2)%nat -> (length q <= 2)%nat ->
  xsyn p = xsyn q -> p = q.
Proof.
  intros b1 b2 p q Hp Hq Lp Lq Heq.
  apply (bd_nodup_map_inj _ _ xsyn all_pats).
  - exact bd_all_pats_nodup.
  - apply (bd_in_all_pats atoms bd_in_atoms b1); assumption.
  - apply (bd_in_all_pats atoms bd_in_atoms b2); assumption.
  - exact Heq.
Qed.

(** Minimum distance 5 over 58 symbols. *)
Theorem bch_distance : forall e : list N,
  length e = npos -> Forall (fun v => v < 32) e ->
  (1 <= weight e <= 4)%nat -> lin e <> 0.
Proof.
  intros e Hlen Hall Hw Hz.
  rewrite bd_lin_sparse in Hz. unfold weight in Hw.
  assert (Hok : pat_ok (length e) (sparse e)) by (apply bd_sparse_ok; [ lia | exact Hall ]).
  remember (sparse e) as s eqn:Es. clear Es.
  rewrite <- (firstn_skipn 2 s) in Hz, Hok.
  rewrite bd_xsyn_app in Hz. apply N.lxor_eq in Hz.
  destruct (bd_pat_ok_app _ _ _ Hok) as (Hp & Hq & Hpq).
  assert (Lp : (length (firstn 2 s) <= 2)%nat) by (rewrite firstn_length; lia).
  assert (Lq : (length (skipn 2 s) <= 2)%nat) by (rewrite skipn_length; lia).
  pose proof (bd_weight2_inj _ _ _ _ Hp Hq Lp Lq Hz) as Heq.
  destruct s as [|a s]; [ cbn [length] in Hw; lia | ].
  cbn [firstn] in Heq, Hpq.
  destruct (skipn 2 (a :: s)) as [|b t] eqn:Esk; [ discriminate | ].
  injection Heq as Hab _. subst b.
  specialize (Hpq a a (or_introl eq_refl) (or_introl eq_refl)). lia.
Qed.
