(** ArmorFast.v — the de-armoring loop with the released pieces accumulated in
    reverse (linear instead of quadratic in the output size), and the proof that
    it computes exactly [Armor.dearmor_from].  The driver calls the fast one. *)
From Age Require Import Base Base64 IO Stream Armor.

Fixpoint ar_drain_rev (fuel cap : nat) (st : arstate) (pieces : list bytes) : res (bytes * outcome) :=
  match fuel with
  | O => Err EOther
  | S f =>
      let* (b, e, st') := ar_read (Nat.max 1 cap) st in
      match e with
      | Some o => Ok (concat (rev (b :: pieces)), o)
      | None => ar_drain_rev f cap st' (b :: pieces)
      end
  end.

Definition dearmor_from_fast (text : bytes) (fin : status) (cap : nat) : res (bytes * outcome) :=
  ar_drain_rev (4 + 2 * length text) cap (ar_init text fin) [].

Lemma ar_drain_rev_eq : forall fuel cap st pieces,
  ar_drain_rev fuel cap st pieces = ar_drain fuel cap st (concat (rev pieces)).
Proof.
  induction fuel as [|f IH]; intros cap st pieces; cbn [ar_drain_rev ar_drain]; [reflexivity|].
  destruct (ar_read (Nat.max 1 cap) st) as [[[b e] st']|c|n]; cbn [bind]; try reflexivity.
  destruct e as [o|].
  - cbn [rev]. rewrite concat_app. cbn [concat]. rewrite app_nil_r. reflexivity.
  - rewrite IH. cbn [rev]. rewrite concat_app. cbn [concat]. rewrite app_nil_r. reflexivity.
Qed.

Theorem dearmor_from_fast_eq : forall text fin cap,
  dearmor_from_fast text fin cap = dearmor_from text fin cap.
Proof. intros. unfold dearmor_from_fast, dearmor_from. apply ar_drain_rev_eq. Qed.

Print Assumptions dearmor_from_fast_eq.
