(** Plugin.v — model of plugin/client.go: the recipient-v1 and identity-v1
    client state machines, as pure functions of everything the plugin will
    ever write to its stdout ([out], a byte string) and of the UI callbacks
    (which answer with fixed values here).  Result: the stanzas the client
    sent to the plugin, in order, and what Wrap / Unwrap returns.

    Not modelled: process start (see Bech32.plugin_exe for the name), write
    errors on the pipe, the 5-second wait timer, and a plugin that stays silent. *)

From Age Require Import Base Base64 Format.
Local Open Scope N_scope.

Record ui := mkUI {
  ui_msg     : option bool;            (* DisplayMessage: None = nil; Some ok? *)
  ui_value   : option (option bytes);  (* RequestValue: nil / error / answer *)
  ui_confirm : option (option bool)    (* Confirm: nil / error / chose yes? *)
}.

Inductive cresult (A : Type) :=
| CROk (a : A)
| CRIncorrect                  (* age.ErrIncorrectIdentity *)
| CRPluginError (text : bytes) (* the plugin's own error message *)
| CRFatal.                     (* any other error *)
Arguments CROk {A} a.
Arguments CRIncorrect {A}.
Arguments CRPluginError {A} text.
Arguments CRFatal {A}.

Definition t (s : String.string) : bytes := bs s.

Definition cmd (ty : bytes) (args : list bytes) : stanza := mkStanza ty args [].
Definition cmd_body (ty : bytes) (body : bytes) : stanza := mkStanza ty [] body.

Definition s_ok := Eval cbv in t "ok".
Definition s_fail := Eval cbv in t "fail".
Definition s_unsupported := Eval cbv in t "unsupported".
Definition s_done := Eval cbv in t "done".
Definition s_error := Eval cbv in t "error".
Definition s_msg := Eval cbv in t "msg".
Definition s_request_secret := Eval cbv in t "request-secret".
Definition s_request_public := Eval cbv in t "request-public".
Definition s_confirm := Eval cbv in t "confirm".
Definition s_recipient_stanza := Eval cbv in t "recipient-stanza".
Definition s_labels := Eval cbv in t "labels".
Definition s_file_key := Eval cbv in t "file-key".
Definition s_add_recipient := Eval cbv in t "add-recipient".
Definition s_add_identity := Eval cbv in t "add-identity".
Definition s_wrap_file_key := Eval cbv in t "wrap-file-key".
Definition s_extension_labels := Eval cbv in t "extension-labels".
Definition s_yes := Eval cbv in t "yes".
Definition s_no := Eval cbv in t "no".
Definition s_zero := Eval cbv in t "0".
Definition s_grease := Eval cbv in t "grease-".

(** strconv.Atoi(s) == 0?  [None] = Atoi error; [Some true] = value 0.
    (Atoi accepts one leading sign and any number of decimal digits; values
    beyond int64 are a range error.) *)
Definition is_dec_digit (c : byte) : bool := N.leb 48 (b2n c) && N.leb (b2n c) 57.
Definition atoi_zero (s : bytes) : option bool :=
  let digits := match s with
                | c :: r => if Byte.eqb c x2b || Byte.eqb c x2d then r else s
                | [] => []
                end in
  match digits with
  | [] => None
  | _ =>
      if negb (forallb is_dec_digit digits) then None
      else
        let v := fold_left (fun a c => a * 10 + (b2n c - 48)) digits 0 in
        if N.ltb 9223372036854775808 v then None      (* out of range either sign *)
        else if N.eqb v 9223372036854775808 && negb (match s with c :: _ => Byte.eqb c x2d | [] => false end)
        then None
        else Some (N.eqb v 0)
  end.

(** ClientUI.handle: [None] = not a UI command; otherwise the replies and
    whether handling failed fatally. *)
Definition ui_handle (u : ui) (s : stanza) : option (list stanza * bool) :=
  if bytes_eqb (st_type s) s_msg then
    Some (match ui_msg u with
          | Some true => [cmd s_ok []]
          | _ => [cmd s_fail []]
          end, false)
  else if bytes_eqb (st_type s) s_request_secret || bytes_eqb (st_type s) s_request_public then
    Some (match ui_value u with
          | Some (Some v) => [cmd_body s_ok v]
          | _ => [cmd s_fail []]
          end, false)
  else if bytes_eqb (st_type s) s_confirm then
    match st_args s with
    | [y] =>
        match ui_confirm u with
        | None => Some ([cmd s_fail []], false)
        | Some ans =>
            match b64_dec_raw y with
            | None => Some ([], true)
            | Some _ =>
                match ans with
                | None => Some ([cmd s_fail []], false)
                | Some b => Some ([cmd s_ok [if b then s_yes else s_no]], false)
                end
            end
        end
    | [y; n] =>
        match ui_confirm u with
        | None => Some ([cmd s_fail []], false)
        | Some ans =>
            match b64_dec_raw y, b64_dec_raw n with
            | Some _, Some _ =>
                match ans with
                | None => Some ([cmd s_fail []], false)
                | Some b => Some ([cmd s_ok [if b then s_yes else s_no]], false)
                end
            | _, _ => Some ([], true)
            end
        end
    | _ => Some ([], true)
    end
  else None.

(** ** recipient-v1 *)

Record rstate := mkRS {
  rs_stanzas : list stanza;       (* recipient stanzas received *)
  rs_labels  : option (list bytes);
  rs_sent    : list stanza        (* replies sent so far *)
}.

(** One plugin message processed by the recipient client: continue with a new
    state, or stop with everything sent and the result. *)
Inductive step_res (S A : Type) :=
| Continue (st : S)
| Stop (sent : list stanza) (r : cresult A).
Arguments Continue {S A} st.
Arguments Stop {S A} sent r.

Definition recipient_step (u : ui) (st : rstate) (s : stanza)
  : step_res rstate (list stanza * list bytes) :=
  let reply (r : list stanza) := mkRS (rs_stanzas st) (rs_labels st) (rs_sent st ++ r) in
  if bytes_eqb (st_type s) s_recipient_stanza then
    match st_args s with
    | idx :: ty :: args =>
        match atoi_zero idx with
        | Some true =>
            Continue (mkRS (rs_stanzas st ++ [mkStanza ty args (st_body s)]) (rs_labels st)
                           (rs_sent st ++ [cmd s_ok []]))
        | _ => Stop (rs_sent st) CRFatal
        end
    | _ => Stop (rs_sent st) CRFatal
    end
  else if bytes_eqb (st_type s) s_labels then
    match rs_labels st with
    | Some _ => Stop (rs_sent st) CRFatal
    | None => Continue (mkRS (rs_stanzas st) (Some (st_args s)) (rs_sent st ++ [cmd s_ok []]))
    end
  else if bytes_eqb (st_type s) s_error then
    Stop (rs_sent st ++ [cmd s_ok []]) (CRPluginError (st_body s))
  else if bytes_eqb (st_type s) s_done then
    Stop (rs_sent st)
         (match rs_stanzas st with
          | [] => CRFatal
          | ss => CROk (ss, match rs_labels st with Some l => l | None => [] end)
          end)
  else
    match ui_handle u s with
    | Some (r, true) => Stop (rs_sent st ++ r) CRFatal
    | Some (r, false) => Continue (reply r)
    | None => Continue (reply [cmd s_unsupported []])
    end.

(** The read loop: frame one stanza off the plugin's output, process it. *)
Fixpoint recipient_loop (fuel : nat) (u : ui) (out : bytes) (st : rstate)
  : list stanza * cresult (list stanza * list bytes) :=
  match fuel with
  | O => (rs_sent st, CRFatal)
  | S f =>
      match read_stanza_bytes out with
      | Err _ | Panic _ => (rs_sent st, CRFatal)      (* EOF or malformed stanza *)
      | Ok (s, rest) =>
          match recipient_step u st s with
          | Continue st' => recipient_loop f u rest st'
          | Stop sent r => (sent, r)
          end
      end
  end.

(** The same machine on an already framed list of messages (end of list =
    the plugin closed its output). *)
Fixpoint recipient_msgs (u : ui) (msgs : list stanza) (st : rstate)
  : list stanza * cresult (list stanza * list bytes) :=
  match msgs with
  | [] => (rs_sent st, CRFatal)
  | m :: rest =>
      match recipient_step u st m with
      | Continue st' => recipient_msgs u rest st'
      | Stop sent r => (sent, r)
      end
  end.

Definition recipient_phase1 (as_identity : bool) (encoding grease file_key : bytes) : list stanza :=
  [cmd (if as_identity then s_add_identity else s_add_recipient) [encoding];
   cmd (s_grease ++ grease) [];
   cmd_body s_wrap_file_key file_key;
   cmd s_extension_labels [];
   cmd s_done []].

(** Recipient.WrapWithLabels: everything sent, and the result. *)
Definition recipient_client (u : ui) (as_identity : bool) (encoding grease file_key out : bytes)
  : list stanza * cresult (list stanza * list bytes) :=
  let p1 := recipient_phase1 as_identity encoding grease file_key in
  let (sent, r) := recipient_loop (S (length out)) u out (mkRS [] None []) in
  (p1 ++ sent, r).

(** ** identity-v1 *)

Record istate := mkIS {
  is_key  : option bytes;         (* Some body once a file-key stanza was received *)
  is_sent : list stanza
}.

Definition identity_step (u : ui) (st : istate) (s : stanza) : step_res istate bytes :=
  if bytes_eqb (st_type s) s_file_key then
    match st_args s with
    | [idx] =>
        match atoi_zero idx with
        | Some true =>
            match is_key st with
            | Some _ => Stop (is_sent st) CRFatal        (* duplicated file-key *)
            | None => Continue (mkIS (Some (st_body s)) (is_sent st ++ [cmd s_ok []]))
            end
        | _ => Stop (is_sent st) CRFatal
        end
    | _ => Stop (is_sent st) CRFatal
    end
  else if bytes_eqb (st_type s) s_error then
    Stop (is_sent st ++ [cmd s_ok []]) (CRPluginError (st_body s))
  else if bytes_eqb (st_type s) s_done then
    Stop (is_sent st)
         (match is_key st with
          | Some (c :: k) => CROk (c :: k)
          | _ => CRIncorrect                 (* no file key, or an empty one *)
          end)
  else
    match ui_handle u s with
    | Some (r, true) => Stop (is_sent st ++ r) CRFatal
    | Some (r, false) => Continue (mkIS (is_key st) (is_sent st ++ r))
    | None => Continue (mkIS (is_key st) (is_sent st ++ [cmd s_unsupported []]))
    end.

Fixpoint identity_loop (fuel : nat) (u : ui) (out : bytes) (st : istate)
  : list stanza * cresult bytes :=
  match fuel with
  | O => (is_sent st, CRFatal)
  | S f =>
      match read_stanza_bytes out with
      | Err _ | Panic _ => (is_sent st, CRFatal)
      | Ok (s, rest) =>
          match identity_step u st s with
          | Continue st' => identity_loop f u rest st'
          | Stop sent r => (sent, r)
          end
      end
  end.

Fixpoint identity_msgs (u : ui) (msgs : list stanza) (st : istate) : list stanza * cresult bytes :=
  match msgs with
  | [] => (is_sent st, CRFatal)
  | m :: rest =>
      match identity_step u st m with
      | Continue st' => identity_msgs u rest st'
      | Stop sent r => (sent, r)
      end
  end.

Definition identity_phase1 (encoding grease : bytes) (stanzas : list stanza) : list stanza :=
  [cmd s_add_identity [encoding]; cmd (s_grease ++ grease) []]
  ++ map (fun rs => mkStanza s_recipient_stanza (s_zero :: st_type rs :: st_args rs) (st_body rs)) stanzas
  ++ [cmd s_done []].

(** Identity.Unwrap *)
Definition identity_client (u : ui) (encoding grease : bytes) (stanzas : list stanza) (out : bytes)
  : list stanza * cresult bytes :=
  let p1 := identity_phase1 encoding grease stanzas in
  let (sent, r) := identity_loop (S (length out)) u out (mkIS None []) in
  (p1 ++ sent, r).

(** What reaches the plugin's stdin. *)
Definition transcript (sent : list stanza) : bytes := concat (map marshal_stanza sent).

(** Read back a transcript as a list of stanzas (what a plugin sees). *)
Fixpoint read_all (fuel : nat) (input : bytes) : option (list stanza) :=
  match input with
  | [] => Some []
  | _ =>
      match fuel with
      | O => None
      | S f =>
          match read_stanza_bytes input with
          | Ok (s, rest) => match read_all f rest with Some l => Some (s :: l) | None => None end
          | _ => None
          end
      end
  end.

(** A message type the clients know (protocol command or UI command). *)
Definition known_recipient_type (ty : bytes) : bool :=
  existsb (bytes_eqb ty) [s_recipient_stanza; s_labels; s_error; s_done; s_msg; s_request_secret; s_request_public; s_confirm].
Definition known_identity_type (ty : bytes) : bool :=
  existsb (bytes_eqb ty) [s_file_key; s_error; s_done; s_msg; s_request_secret; s_request_public; s_confirm].

(** Vocabulary of the result theorems. *)
Definition is_type (ty : bytes) (m : stanza) : bool := bytes_eqb (st_type m) ty.

(** The recipient stanza a well-formed, index-0 "recipient-stanza" message carries. *)
Definition rs_payload (m : stanza) : option stanza :=
  match st_args m with
  | idx :: ty :: args =>
      match atoi_zero idx with
      | Some true => Some (mkStanza ty args (st_body m))
      | _ => None
      end
  | _ => None
  end.

Definition not_terminal (m : stanza) : Prop := st_type m <> s_done /\ st_type m <> s_error.
