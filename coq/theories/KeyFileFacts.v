(** KeyFileFacts.v — proofs about the key-file parsers of KeyFile.v (check C18).
    Lemmas only. *)

From Age Require Import Base Bech32 KeyFile Base64Facts FormatFacts Bech32Facts.

(** * The scanning loop, generalised over counter and accumulator *)

Lemma kf_loop_ok_gen : forall (f : bytes -> line_verdict) (ls : list bytes) (n : nat)
    (acc ks : list key),
  kf_loop f ls n acc = KfOk ks ->
  exists ks', keys_of f (filter counted ls) = Some ks' /\ ks = acc ++ ks' /\ ks <> [].
Proof.
  intros f; induction ls as [|l rest IH]; intros n acc ks H.
  - cbn [kf_loop] in H. destruct acc as [|a acc]; [discriminate|].
    injection H as <-. exists []. cbn [filter keys_of].
    split; [reflexivity|]. split; [rewrite app_nil_r; reflexivity | discriminate].
  - cbn [kf_loop] in H. destruct (too_long l) eqn:Etl; [discriminate|].
    cbn [filter]. destruct (counted l) eqn:Ec; cbn [negb] in H.
    + cbn [keys_of]. destruct (f l) as [k| | |s] eqn:Ef; try discriminate.
      * apply IH in H. destruct H as [ks' [Hk [Heq Hne]]].
        exists (k :: ks'). rewrite Hk. split; [reflexivity|].
        split; [|exact Hne]. rewrite Heq, <- app_assoc. reflexivity.
      * apply IH in H. destruct H as [ks' [Hk [Heq Hne]]].
        exists ks'. rewrite Hk. split; [reflexivity|]. split; assumption.
    + apply IH in H. exact H.
Qed.

Lemma kf_loop_accepts_gen : forall (f : bytes -> line_verdict) (ls : list bytes) (n : nat)
    (acc ks' : list key),
  Forall (fun l => too_long l = false) ls ->
  keys_of f (filter counted ls) = Some ks' -> acc ++ ks' <> [] ->
  kf_loop f ls n acc = KfOk (acc ++ ks').
Proof.
  intros f; induction ls as [|l rest IH]; intros n acc ks' Hall Hk Hne.
  - cbn [filter keys_of] in Hk. injection Hk as <-. rewrite app_nil_r in *.
    cbn [kf_loop]. destruct acc as [|a acc]; [contradiction Hne; reflexivity | reflexivity].
  - inversion Hall as [|x xs Htl Hrest]; subst x xs.
    cbn [kf_loop]. rewrite Htl. cbn [filter] in Hk.
    destruct (counted l) eqn:Ec; cbn [negb].
    + cbn [keys_of] in Hk. destruct (f l) as [k| | |s] eqn:Ef; try discriminate.
      * destruct (keys_of f (filter counted rest)) as [ks0|] eqn:Ek0; [|discriminate].
        injection Hk as <-.
        replace (acc ++ k :: ks0) with ((acc ++ [k]) ++ ks0) in *
          by (rewrite <- app_assoc; reflexivity).
        apply IH; [exact Hrest | reflexivity | exact Hne].
      * destruct (keys_of f (filter counted rest)) as [ks0|] eqn:Ek0; [|discriminate].
        injection Hk as <-.
        apply IH; [exact Hrest | reflexivity | exact Hne].
    + apply IH; assumption.
Qed.

Lemma kf_loop_err_gen : forall (f : bytes -> line_verdict) (ls : list bytes) (n : nat)
    (acc : list key) (m : nat),
  kf_loop f ls n acc = KfErrLine m ->
  n < m /\
  exists l, nth_error ls (m - S n) = Some l /\ counted l = true /\ f l = LBad /\
    forall i l', i < m - S n -> nth_error ls i = Some l' ->
      too_long l' = false /\
      (counted l' = true -> exists k, f l' = LKey k \/ f l' = LSkip).
Proof.
  intros f; induction ls as [|l rest IH]; intros n acc m H.
  - cbn [kf_loop] in H. destruct acc; discriminate.
  - cbn [kf_loop] in H. destruct (too_long l) eqn:Etl; [discriminate|].
    assert (Hstep : forall acc',
      (counted l = true -> exists k, f l = LKey k \/ f l = LSkip) ->
      kf_loop f rest (S n) acc' = KfErrLine m ->
      n < m /\
      exists l0, nth_error (l :: rest) (m - S n) = Some l0 /\ counted l0 = true /\
        f l0 = LBad /\
        forall i l', i < m - S n -> nth_error (l :: rest) i = Some l' ->
          too_long l' = false /\
          (counted l' = true -> exists k, f l' = LKey k \/ f l' = LSkip)).
    { intros acc' Hl H'. apply IH in H'.
      destruct H' as [Hlt [l0 [Hn [Hc [Hb Hbefore]]]]].
      split; [lia|]. exists l0.
      replace (m - S n) with (S (m - S (S n))) by lia.
      cbn [nth_error].
      split; [exact Hn|]. split; [exact Hc|]. split; [exact Hb|].
      intros i l' Hi Hnth. destruct i as [|i]; cbn [nth_error] in Hnth.
      - injection Hnth as <-. split; [exact Etl | exact Hl].
      - apply (Hbefore i l'); [lia | exact Hnth]. }
    destruct (counted l) eqn:Ec; cbn [negb] in H.
    + destruct (f l) as [k| | |s] eqn:Ef; try discriminate.
      * apply (Hstep (acc ++ [k])); [|exact H].
        intros _. exists k. left; reflexivity.
      * apply (Hstep acc); [|exact H].
        intros _. exists (KNative []). right; reflexivity.
      * injection H as <-. split; [lia|]. exists l.
        replace (S n - S n) with 0 by lia. cbn [nth_error].
        split; [reflexivity|]. split; [exact Ec|]. split; [exact Ef|].
        intros i l' Hi; lia.
    + apply (Hstep acc); [|exact H]. intros Hd; discriminate.
Qed.

Lemma kf_loop_no_panic_gen : forall (f : bytes -> line_verdict),
  (forall l s, f l <> LPanic s) ->
  forall (ls : list bytes) (n : nat) (acc : list key) (s : nat),
    kf_loop f ls n acc <> KfPanic s.
Proof.
  intros f Hf; induction ls as [|l rest IH]; intros n acc s.
  - cbn [kf_loop]. destruct acc; discriminate.
  - cbn [kf_loop]. destruct (too_long l); [discriminate|].
    destruct (negb (counted l)); [apply IH|].
    destruct (f l) as [k| | |s'] eqn:Ef; try apply IH; try discriminate.
    exfalso. exact (Hf l s' Ef).
Qed.

(** * The C18 statements *)

Lemma kf_ok_exact :
  forall (parse_line : bytes -> line_verdict) (text : bytes) (ks : list key),
    kf_loop parse_line (scan_lines text) 0 [] = KfOk ks ->
    keys_of parse_line (filter counted (scan_lines text)) = Some ks /\ ks <> [].
Proof.
  intros f text ks H. apply kf_loop_ok_gen in H.
  destruct H as [ks' [Hk [Heq Hne]]]. cbn [app] in Heq. subst ks'.
  split; assumption.
Qed.

Lemma kf_accepts_valid :
  forall (parse_line : bytes -> line_verdict) (text : bytes) (ks : list key),
    Forall (fun l => too_long l = false) (scan_lines text) ->
    keys_of parse_line (filter counted (scan_lines text)) = Some ks -> ks <> [] ->
    kf_loop parse_line (scan_lines text) 0 [] = KfOk ks.
Proof.
  intros f text ks Hall Hk Hne.
  exact (kf_loop_accepts_gen f (scan_lines text) 0 [] ks Hall Hk Hne).
Qed.

Lemma kf_error_first_bad :
  forall (parse_line : bytes -> line_verdict) (text : bytes) (n : nat),
    kf_loop parse_line (scan_lines text) 0 [] = KfErrLine n ->
    exists l, nth_error (scan_lines text) (n - 1) = Some l /\ 1 <= n /\
              counted l = true /\ parse_line l = LBad /\
              forall i l', i < n - 1 -> nth_error (scan_lines text) i = Some l' ->
                           too_long l' = false /\
                           (counted l' = true -> exists k, parse_line l' = LKey k \/ parse_line l' = LSkip).
Proof.
  intros f text n H. apply kf_loop_err_gen in H.
  destruct H as [Hlt [l [Hn [Hc [Hb Hbefore]]]]].
  exists l. split; [exact Hn|]. split; [lia|]. split; [exact Hc|]. split; [exact Hb|].
  exact Hbefore.
Qed.

Lemma kf_never_empty_ok :
  forall (parse_line : bytes -> line_verdict) (text : bytes),
    kf_loop parse_line (scan_lines text) 0 [] <> KfOk [].
Proof.
  intros f text H. apply kf_ok_exact in H. destruct H as [_ Hne].
  apply Hne; reflexivity.
Qed.

Lemma keys_of_verdict_all_ok : forall (p : bytes -> res bytes) (ls : list bytes) (ks : list key),
  keys_of (fun l => verdict_of (p l)) ls = Some ks ->
  Forall (fun l => exists k, p l = Ok k) ls.
Proof.
  intros p; induction ls as [|l rest IH]; intros ks H; [constructor|].
  cbn [keys_of] in H. destruct (p l) as [k|c|s] eqn:Ep; cbn [verdict_of] in H;
    try discriminate.
  destruct (keys_of (fun l0 => verdict_of (p l0)) rest) as [ks0|] eqn:Ek; [|discriminate].
  constructor; [exists k; exact Ep | exact (IH ks0 eq_refl)].
Qed.

Lemma library_never_skips :
  forall (text : bytes) (ks : list key),
    (parse_identities text = KfOk ks ->
       Forall (fun l => exists k, parse_identity l = Ok k) (filter counted (scan_lines text))) /\
    (parse_recipients text = KfOk ks ->
       Forall (fun l => exists k, parse_recipient l = Ok k) (filter counted (scan_lines text))).
Proof.
  intros text ks. split; intros H.
  - unfold parse_identities in H. apply kf_ok_exact in H. destruct H as [Hk _].
    exact (keys_of_verdict_all_ok parse_identity _ ks Hk).
  - unfold parse_recipients in H. apply kf_ok_exact in H. destruct H as [Hk _].
    exact (keys_of_verdict_all_ok parse_recipient _ ks Hk).
Qed.

Lemma cli_skip_documented :
  forall (ssh_parse : bytes -> option bytes) (ok : bytes -> bool) (l : bytes),
    cli_recipient_line ssh_parse ok l = LSkip ->
    ok l = true /\ cli_recipient_arg ssh_parse l = LBad /\ cli_too_long l = false.
Proof.
  intros ssh_parse ok l H. unfold cli_recipient_line in H.
  destruct (cli_too_long l) eqn:Etl; [discriminate|].
  assert (Hns : cli_recipient_arg ssh_parse l <> LSkip).
  { unfold cli_recipient_arg.
    destruct (is_prefix pfx_plugin_rcpt l && Nat.ltb 1 (count_byte one l)).
    - destruct (parse_plugin_recipient l) as [[nm d]|c|s]; cbn [plugin_verdict]; discriminate.
    - destruct (is_prefix pfx_plugin_rcpt l).
      + destruct (parse_recipient l) as [k|c|s]; cbn [verdict_of]; discriminate.
      + destruct (is_prefix pfx_ssh l); [|discriminate].
        destruct (ssh_parse l); discriminate. }
  destruct (cli_recipient_arg ssh_parse l) as [k| | |s] eqn:Ea; try discriminate.
  - contradiction Hns; reflexivity.
  - destruct (ok l) eqn:Eo; [|discriminate].
    split; [reflexivity|]. split; reflexivity.
Qed.

Lemma scan_lines_spec :
  forall (ls : list bytes) (final : bytes),
    Forall (fun l => ~ In LF l) ls -> ~ In LF final ->
    scan_lines (concat (map (fun l => l ++ [LF]) ls) ++ final)
    = map drop_cr (ls ++ match final with [] => [] | _ => [final] end).
Proof.
  intros ls final Hall Hfin. unfold scan_lines.
  rewrite split_on_app_lines by (rewrite Forall_forall in Hall; exact Hall).
  rewrite (split_on_no_sep LF final Hfin).
  rewrite rev_app_distr. cbn [rev app].
  destruct final as [|c final'].
  - rewrite rev_involutive, app_nil_r. reflexivity.
  - reflexivity.
Qed.

(** * No panic *)

Lemma parse_identity_no_panic : forall l s, parse_identity l <> Panic s.
Proof.
  intros l s. unfold parse_identity. pose proof (decode_no_panic l) as Hd.
  destruct (decode l) as [[hrp k]|c|s']; cbn [bind is_panic] in *; try discriminate.
  destruct (negb (bytes_eqb hrp hrp_secret)); [discriminate|].
  destruct (negb (Nat.eqb (length k) 32)); discriminate.
Qed.

Lemma parse_recipient_no_panic : forall l s, parse_recipient l <> Panic s.
Proof.
  intros l s. unfold parse_recipient. pose proof (decode_no_panic l) as Hd.
  destruct (decode l) as [[hrp k]|c|s']; cbn [bind is_panic] in *; try discriminate.
  destruct (negb (bytes_eqb hrp hrp_age)); [discriminate|].
  destruct (negb (Nat.eqb (length k) 32)); discriminate.
Qed.

Lemma parse_plugin_identity_no_panic : forall l s, parse_plugin_identity l <> Panic s.
Proof.
  intros l s. unfold parse_plugin_identity. pose proof (decode_no_panic l) as Hd.
  destruct (decode l) as [[hrp d]|c|s']; cbn [bind is_panic] in *; try discriminate.
  destruct (strip_prefix pfx_plugin_id hrp) as [r|]; [|discriminate].
  destruct (strip_suffix_byte dash hrp) as [x|]; [|discriminate].
  destruct (valid_plugin_name _); discriminate.
Qed.

Lemma verdict_of_no_panic : forall (r : res bytes) s,
  (forall s', r <> Panic s') -> verdict_of r <> LPanic s.
Proof.
  intros [k|c|s0] s H; cbn [verdict_of]; try discriminate.
  exfalso. exact (H s0 eq_refl).
Qed.

Lemma plugin_verdict_no_panic : forall (r : res (bytes * bytes)) s,
  (forall s', r <> Panic s') -> plugin_verdict r <> LPanic s.
Proof.
  intros [[nm d]|c|s0] s H; cbn [plugin_verdict]; try discriminate.
  exfalso. exact (H s0 eq_refl).
Qed.

Lemma cli_identity_line_no_panic : forall l s, cli_identity_line l <> LPanic s.
Proof.
  intros l s. unfold cli_identity_line.
  destruct (is_prefix pfx_plugin_id l).
  - apply plugin_verdict_no_panic. intros s'. apply parse_plugin_identity_no_panic.
  - destruct (is_prefix pfx_secret1 l); [|discriminate].
    apply verdict_of_no_panic. intros s'. apply parse_identity_no_panic.
Qed.

Lemma keyfile_no_panic :
  forall (text : bytes) n,
    parse_identities text <> KfPanic n /\ parse_recipients text <> KfPanic n /\
    cli_parse_identities text <> KfPanic n.
Proof.
  intros text n. split; [|split].
  - unfold parse_identities. apply kf_loop_no_panic_gen.
    intros l s. apply verdict_of_no_panic. intros s'. apply parse_identity_no_panic.
  - unfold parse_recipients. apply kf_loop_no_panic_gen.
    intros l s. apply verdict_of_no_panic. intros s'. apply parse_recipient_no_panic.
  - unfold cli_parse_identities. apply kf_loop_no_panic_gen.
    exact cli_identity_line_no_panic.
Qed.
