(** Extraction of the executable model to OCaml.  ExtrOcamlBasic only: N,
    positive, nat and byte stay the extracted inductives; no Extract Constant,
    no Extract Inductive beyond those ExtrOcamlBasic declares (bool, option,
    unit, list, prod, sumbool, sumor). *)
Require Extraction.
Require Import ExtrOcamlBasic.
From Age Require Import Base Base64 Format FormatIO IO Stream Armor Bech32 Prims Recipients Age KeyFile Plugin SshEnc Cli Crypto CliFlags StreamNonceFacts ArmorFast PathLookup IdFile.
Extraction Blacklist List String Int Bytes.
Extraction "model.ml"
  Base.n2b Base.b2n Base.split_on Base.join_on Base.dec_of_N
  Base64.b64_enc_raw Base64.b64_dec_raw Base64.b64_enc_std Base64.b64_dec_std
  Format.parse Format.marshal Format.marshal_stanza Format.read_stanza_bytes Format.marshal_without_mac
  FormatIO.header_writes
  IO.src_read IO.read_full IO.sink_write IO.empty_sink IO.plain_src
  Stream.encrypt_spec Stream.decrypt_spec Stream.w_run Stream.w_init Stream.w_write Stream.w_close StreamNonceFacts.lwrite StreamNonceFacts.w_ops Stream.run_reader Stream.nonce_of
  Armor.armor_bytes Armor.armor_run Armor.aw_run Armor.aw_init Armor.dearmor_from ArmorFast.dearmor_from_fast Armor.dearmor Armor.normalize
  Bech32.encode Bech32.decode Bech32.parse_recipient Bech32.recipient_string
  Bech32.parse_identity Bech32.identity_string
  Bech32.encode_plugin_identity Bech32.parse_plugin_identity
  Bech32.encode_plugin_recipient Bech32.parse_plugin_recipient
  Bech32.valid_plugin_name Bech32.new_identity_without_data Bech32.plugin_exe
  Crypto.sha256_bytes Crypto.hmac_sha256 Crypto.hkdf32_sha256 Crypto.chapoly_seal Crypto.chapoly_open
  Crypto.x25519_go Crypto.scrypt_bytes Crypto.GP
  Prims.mkPrims Recipients.wrap Recipients.unwrap Recipients.unwrap_one
  Age.plan_encrypt Age.file_bytes Age.encrypt_bytes Age.encrypt_session Age.armored_session
  KeyFile.parse_identities KeyFile.parse_recipients KeyFile.cli_parse_identities KeyFile.cli_parse_recipients KeyFile.scan_lines
  Plugin.recipient_client Plugin.identity_client Plugin.transcript Plugin.atoi_zero
  SshEnc.enc_unwrap SshEnc.fresh
  IdFile.idfile IdFile.idfile_kind_of PathLookup.executed CliFlags.validate CliFlags.run_cli
  Cli.decrypt_cli Cli.encrypt_cli Cli.keygen_cli Cli.keygen_stdout
  Age.encrypt_history Age.decrypt_open Age.decrypt_bytes Age.decrypt_src Age.label_rule Age.wrap_all.
