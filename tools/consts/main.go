// consts: a small translator from /repo's Go source to Coq definitions of the
// CONSTANTS the age format is made of (labels, sizes, limits, alphabets).  The
// values are evaluated by go/types from the source as it is now; the generated
// file is compared with the model's constants by the static obligation files
// coq/obligations/Consts*.v on every run.  A constant that can no longer be
// found (renamed, turned into a variable) is an error: the tie is then broken
// and the check says so.
package main

import (
	"fmt"
	"go/ast"
	"go/constant"
	"go/token"
	"go/types"
	"os"
	"sort"
	"strings"

	"golang.org/x/tools/go/packages"
)

type item struct {
	name string // Coq name
	val  string // Coq term
	ty   string
	src  string
}

func coqBytes(s string) string {
	var b strings.Builder
	b.WriteString("[")
	for i := 0; i < len(s); i++ {
		if i > 0 {
			b.WriteString("; ")
		}
		fmt.Fprintf(&b, "n2b %d", s[i])
	}
	b.WriteString("]")
	return b.String()
}

func main() {
	out := "SrcConsts.v"
	if len(os.Args) > 1 {
		out = os.Args[1]
	}
	repo := "/repo"
	if len(os.Args) > 2 {
		repo = os.Args[2] // another checkout (used when trying the translator out)
	}
	cfg := &packages.Config{Mode: packages.NeedName | packages.NeedFiles | packages.NeedSyntax | packages.NeedTypes | packages.NeedTypesInfo, Dir: repo}
	pkgs, err := packages.Load(cfg, "filippo.io/age", "filippo.io/age/agessh", "filippo.io/age/armor", "filippo.io/age/internal/stream", "filippo.io/age/internal/format", "filippo.io/age/internal/bech32")
	if err != nil {
		fmt.Fprintln(os.Stderr, err)
		os.Exit(2)
	}
	byName := map[string]*packages.Package{}
	for _, p := range pkgs {
		if len(p.Errors) > 0 {
			fmt.Fprintln(os.Stderr, "load errors:", p.Errors)
			os.Exit(2)
		}
		byName[p.Name] = p
	}
	var items []item
	var missing []string
	pos := func(p *packages.Package, n ast.Node) string {
		q := p.Fset.Position(n.Pos())
		return fmt.Sprintf("%s:%d", strings.TrimPrefix(q.Filename, repo+"/"), q.Line)
	}
	// a named constant anywhere in the package (package level or local to a function)
	constOf := func(pkg, name string) (constant.Value, string, bool) {
		p := byName[pkg]
		if p == nil {
			return nil, "", false
		}
		for id, obj := range p.TypesInfo.Defs {
			if c, ok := obj.(*types.Const); ok && id.Name == name {
				return c.Val(), pos(p, id), true
			}
		}
		return nil, "", false
	}
	addInt := func(coq, pkg, name string) {
		v, where, ok := constOf(pkg, name)
		if !ok || v.Kind() != constant.Int {
			missing = append(missing, pkg+"."+name)
			return
		}
		items = append(items, item{coq, v.ExactString(), "N", where})
	}
	addStr := func(coq, pkg, name string) {
		v, where, ok := constOf(pkg, name)
		if !ok || v.Kind() != constant.String {
			missing = append(missing, pkg+"."+name)
			return
		}
		items = append(items, item{coq, coqBytes(constant.StringVal(v)), "list Byte.byte", where})
	}
	// a package-level variable initialised with a string literal, []byte("literal") or a list of integer literals
	varInit := func(pkg, name string) (ast.Expr, *packages.Package) {
		p := byName[pkg]
		if p == nil {
			return nil, nil
		}
		for _, f := range p.Syntax {
			for _, d := range f.Decls {
				gd, ok := d.(*ast.GenDecl)
				if !ok || gd.Tok != token.VAR {
					continue
				}
				for _, sp := range gd.Specs {
					vs := sp.(*ast.ValueSpec)
					for i, id := range vs.Names {
						if id.Name == name && i < len(vs.Values) {
							return vs.Values[i], p
						}
					}
				}
			}
		}
		return nil, nil
	}
	addVarStr := func(coq, pkg, name string) {
		e, p := varInit(pkg, name)
		if e == nil {
			missing = append(missing, pkg+"."+name)
			return
		}
		if call, ok := e.(*ast.CallExpr); ok && len(call.Args) == 1 { // []byte("...")
			e = call.Args[0]
		}
		tv, ok := p.TypesInfo.Types[e]
		if !ok || tv.Value == nil || tv.Value.Kind() != constant.String {
			missing = append(missing, pkg+"."+name+" (not a constant string)")
			return
		}
		items = append(items, item{coq, coqBytes(constant.StringVal(tv.Value)), "list Byte.byte", pos(p, e)})
	}
	addVarInts := func(coq, pkg, name string) {
		e, p := varInit(pkg, name)
		cl, ok := e.(*ast.CompositeLit)
		if e == nil || !ok {
			missing = append(missing, pkg+"."+name)
			return
		}
		var vals []string
		for _, el := range cl.Elts {
			tv, ok := p.TypesInfo.Types[el]
			if !ok || tv.Value == nil || tv.Value.Kind() != constant.Int {
				missing = append(missing, pkg+"."+name+" (element not a constant)")
				return
			}
			vals = append(vals, tv.Value.ExactString())
		}
		items = append(items, item{coq, "[" + strings.Join(vals, "; ") + "]", "list N", pos(p, e)})
	}
	// the value of a field in the composite literal a constructor returns
	addField := func(coq, pkg, fn, field string) {
		p := byName[pkg]
		found := false
		if p != nil {
			for _, f := range p.Syntax {
				ast.Inspect(f, func(n ast.Node) bool {
					fd, ok := n.(*ast.FuncDecl)
					if !ok || fd.Name.Name != fn || fd.Body == nil {
						return true
					}
					ast.Inspect(fd.Body, func(m ast.Node) bool {
						kv, ok := m.(*ast.KeyValueExpr)
						if !ok {
							return true
						}
						if id, ok := kv.Key.(*ast.Ident); ok && id.Name == field {
							if tv, ok := p.TypesInfo.Types[kv.Value]; ok && tv.Value != nil && tv.Value.Kind() == constant.Int && !found {
								items = append(items, item{coq, tv.Value.ExactString(), "N", pos(p, kv)})
								found = true
							}
						}
						return true
					})
					return false
				})
			}
		}
		if !found {
			missing = append(missing, pkg+"."+fn+"{"+field+"}")
		}
	}

	addInt("stream_ChunkSize", "stream", "ChunkSize")
	addInt("stream_encChunkSize", "stream", "encChunkSize")
	addInt("stream_lastChunkFlag", "stream", "lastChunkFlag")
	addInt("age_fileKeySize", "age", "fileKeySize")
	addInt("age_streamNonceSize", "age", "streamNonceSize")
	addInt("age_scryptSaltSize", "age", "scryptSaltSize")
	addStr("age_x25519Label", "age", "x25519Label")
	addStr("age_scryptLabel", "age", "scryptLabel")
	addStr("agessh_oaepLabel", "agessh", "oaepLabel")
	addStr("agessh_ed25519Label", "agessh", "ed25519Label")
	addField("age_defaultWorkFactor", "age", "NewScryptRecipient", "workFactor")
	addField("age_defaultMaxWorkFactor", "age", "NewScryptIdentity", "maxWorkFactor")
	addInt("format_ColumnsPerLine", "format", "ColumnsPerLine")
	addInt("format_BytesPerLine", "format", "BytesPerLine")
	addStr("format_intro", "format", "intro")
	addVarStr("format_stanzaPrefix", "format", "stanzaPrefix")
	addVarStr("format_footerPrefix", "format", "footerPrefix")
	addStr("armor_Header", "armor", "Header")
	addStr("armor_Footer", "armor", "Footer")
	addInt("armor_maxWhitespace", "armor", "maxWhitespace")
	addVarStr("bech32_charset", "bech32", "charset")
	addVarInts("bech32_generator", "bech32", "generator")

	if len(missing) > 0 {
		sort.Strings(missing)
		fmt.Fprintln(os.Stderr, "consts: cannot find in /repo's source:", strings.Join(missing, ", "))
		os.Exit(3)
	}
	var b strings.Builder
	b.WriteString("(** GENERATED by tools/consts from /repo's current source — do not edit. *)\n")
	b.WriteString("From Coq Require Import NArith List.\nFrom Age Require Import Base.\nImport ListNotations.\nLocal Open Scope N_scope.\n\n")
	for _, it := range items {
		fmt.Fprintf(&b, "(* %s *)\nDefinition %s : %s := %s.\n", it.src, it.name, it.ty, it.val)
	}
	if err := os.WriteFile(out, []byte(b.String()), 0o644); err != nil {
		fmt.Fprintln(os.Stderr, err)
		os.Exit(2)
	}
	fmt.Printf("consts: %d constants translated\n", len(items))
}
