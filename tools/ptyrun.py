#!/usr/bin/env python3
"""ptyrun.py WORKDIR RESPONSES_JSON -- cmd args...
Run a command with a pseudo-terminal as its controlling terminal (age asks for passphrases
on /dev/tty).  RESPONSES_JSON: list of [substring_to_wait_for, text_to_type].  Prints a JSON
object {"exit": code, "output": captured terminal text}."""
import json, os, pty, select, sys, time
workdir, responses = sys.argv[1], json.loads(sys.argv[2])
cmd = sys.argv[sys.argv.index("--") + 1:]
pid, fd = pty.fork()
if pid == 0:
    os.chdir(workdir)
    os.environ["PATH"] = "/usr/bin:/bin"
    os.execv(cmd[0], cmd)
buf = b""
allbuf = b""
idx = 0
deadline = time.time() + 60
status = None
while time.time() < deadline:
    r, _, _ = select.select([fd], [], [], 0.2)
    if r:
        try:
            data = os.read(fd, 4096)
        except OSError:
            data = b""
        if not data:
            break
        buf += data
        allbuf += data
        while idx < len(responses) and responses[idx][0].encode() in buf:
            os.write(fd, responses[idx][1].encode() + b"\n")
            buf = buf[buf.index(responses[idx][0].encode()) + len(responses[idx][0]):]
            idx += 1
    else:
        p, st = os.waitpid(pid, os.WNOHANG)
        if p == pid:
            status = st
            break
if status is None:
    try:
        _, status = os.waitpid(pid, 0)
    except ChildProcessError:
        status = 0
code = os.waitstatus_to_exitcode(status) if hasattr(os, "waitstatus_to_exitcode") else (status >> 8)
print(json.dumps({"exit": code, "typed": idx, "output": allbuf.decode("latin-1")[-4000:]}))
