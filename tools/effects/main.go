// effects — the translator for C20: for the Wrap/Unwrap methods of age's four
// recipient and identity types (and the module functions they call,
// transitively) list every write to memory reachable from the receiver, from
// a parameter that aliases shared data, or to a package-level variable.
// Output: a Coq file (Effects.v) whose lemma all_shared_writes_empty only
// compiles if the list is empty.   Syntactic + go/types; in the trusted base.
package main

import (
	"fmt"
	"go/ast"
	"go/token"
	"go/types"
	"os"
	"sort"
	"strings"

	"golang.org/x/tools/go/packages"
)

type fnKey struct{ pkg, recv, name string }

func (k fnKey) String() string {
	p := k.pkg[strings.LastIndex(k.pkg, "/")+1:]
	if k.recv != "" {
		return p + "." + k.recv + "." + k.name
	}
	return p + "." + k.name
}

type fnInfo struct {
	key  fnKey
	decl *ast.FuncDecl
	pkg  *packages.Package
	// summary: which parameters (index; -1 = receiver) the function writes through
	writesParam map[int]bool
	done        bool
	busy        bool
}

var funcs = map[fnKey]*fnInfo{}
var byObj = map[types.Object]*fnInfo{}
var fset *token.FileSet

type finding struct{ where, what string }

var findings []finding
var analysed = map[string]bool{}

func refLike(t types.Type) bool {
	switch u := t.Underlying().(type) {
	case *types.Pointer, *types.Slice, *types.Map, *types.Chan, *types.Interface, *types.Signature:
		return true
	case *types.Struct:
		for i := 0; i < u.NumFields(); i++ {
			if refLike(u.Field(i).Type()) {
				return true
			}
		}
	case *types.Array:
		return refLike(u.Elem())
	}
	return false
}

func rootIdent(e ast.Expr) (*ast.Ident, int) {
	depth := 0
	for {
		switch x := e.(type) {
		case *ast.Ident:
			return x, depth
		case *ast.ParenExpr:
			e = x.X
		case *ast.SelectorExpr:
			e = x.X
			depth++
		case *ast.IndexExpr:
			e = x.X
			depth++
		case *ast.SliceExpr:
			e = x.X
			depth++
		case *ast.StarExpr:
			e = x.X
			depth++
		case *ast.UnaryExpr:
			if x.Op == token.AND {
				e = x.X
				continue
			}
			return nil, 0
		case *ast.TypeAssertExpr:
			e = x.X
		case *ast.CallExpr:
			// conversions like []byte(x) copy; method/func results: unknown root
			return nil, 0
		default:
			return nil, 0
		}
	}
}

type analysis struct {
	fi      *fnInfo
	info    *types.Info
	tainted map[types.Object]int // object -> param index it aliases (-1 receiver, -2 package-level/unknown shared)
	top     bool                 // findings are recorded only for root methods and their callees on shared data
}

func isPkgLevel(o types.Object) bool {
	v, ok := o.(*types.Var)
	return ok && v.Parent() != nil && v.Parent() == v.Pkg().Scope()
}

// sharedRoot: does expression e reach shared memory? returns (param index or -2, true)
func (a *analysis) sharedRoot(e ast.Expr) (int, bool) {
	id, _ := rootIdent(e)
	if id == nil {
		return 0, false
	}
	o := a.info.Uses[id]
	if o == nil {
		o = a.info.Defs[id]
	}
	if o == nil {
		return 0, false
	}
	if isPkgLevel(o) {
		return -2, true
	}
	if p, ok := a.tainted[o]; ok {
		return p, true
	}
	return 0, false
}

var externalMutators = map[string][]int{ // full name -> indexes of arguments written
	"io.ReadFull": {1}, "io.ReadAtLeast": {1}, "crypto/rand.Read": {0}, "math/rand.Read": {0},
	"encoding/hex.Encode": {0}, "encoding/hex.Decode": {0}, "sort.Strings": {0}, "sort.Slice": {0}, "sort.Sort": {0}, "sort.Stable": {0},
	"crypto/subtle.ConstantTimeCopy": {1}, "golang.org/x/crypto/curve25519.ScalarMult": {0}, "golang.org/x/crypto/curve25519.ScalarBaseMult": {0},
	"bytes.(*Buffer).Write": {-1}, "encoding/binary.Read": {2},
}

// pointer-receiver methods of other modules known not to write through the receiver
var readOnlyPtrMethods = map[string]bool{
	"(*crypto/rsa.PrivateKey).Public": true, "(*crypto/rsa.PrivateKey).Equal": true, "(*crypto/rsa.PrivateKey).Size": true, "(*crypto/rsa.PrivateKey).Validate": true,
	"(*crypto/rsa.PublicKey).Size": true, "(*crypto/rsa.PublicKey).Equal": true,
	"(*math/big.Int).Cmp": true, "(*math/big.Int).BitLen": true, "(*math/big.Int).Bytes": true, "(*math/big.Int).Sign": true,
	"(*crypto/ecdh.PrivateKey).PublicKey": true, "(*crypto/ecdh.PrivateKey).Bytes": true, "(*crypto/ecdh.PrivateKey).ECDH": true, "(*crypto/ecdh.PublicKey).Bytes": true,
	"(*filippo.io/edwards25519.Point).Bytes": true, "(*filippo.io/edwards25519.Point).BytesMontgomery": true,
}

// types documented as safe for concurrent use / immutable after construction
func immutableType(full string) bool {
	for _, pre := range []string{"(*encoding/base64.Encoding).", "(*encoding/base32.Encoding)."} {
		if strings.HasPrefix(full, pre) {
			return true
		}
	}
	return strings.HasPrefix(full, "(*regexp.Regexp).") && full != "(*regexp.Regexp).Longest"
}

var mutatingMethodNames = map[string]bool{"Write": true, "WriteString": true, "WriteByte": true, "Reset": true, "Read": true, "Seek": true, "Grow": true,
	"Truncate": true, "ReadFrom": true, "Set": true, "SetBytes": true, "Add": true, "Store": true, "Swap": true, "Lock": false, "Unlock": false}

// sharedParams: which parameters of a ROOT method alias the value shared
// between goroutines: the receiver (-1) of a Wrap/Unwrap method; for
// age.Encrypt / age.Decrypt the recipients / identities (parameter 1) but not
// the per-call destination / source.
func sharedParams(fi *fnInfo) map[int]bool {
	if !isRoot[fi.key.String()] {
		return nil
	}
	if fi.key.recv == "" && (fi.key.name == "Encrypt" || fi.key.name == "Decrypt") {
		return map[int]bool{1: true}
	}
	if fi.key.recv != "" {
		return map[int]bool{-1: true}
	}
	return nil
}

var isRoot = map[string]bool{}

func (a *analysis) record(pos token.Pos, what string, param int) {
	if param >= -1 {
		a.fi.writesParam[param] = true
		if !sharedParams(a.fi)[param] {
			return // a write through per-call data: only part of the summary
		}
	}
	p := fset.Position(pos)
	file := p.Filename[strings.LastIndex(p.Filename, "/")+1:]
	findings = append(findings, finding{fmt.Sprintf("%s (%s:%d)", a.fi.key, file, p.Line), what})
}

func exprString(e ast.Expr) string {
	var b strings.Builder
	ast.Inspect(e, func(n ast.Node) bool {
		if id, ok := n.(*ast.Ident); ok {
			b.WriteString(id.Name + ".")
		}
		return true
	})
	return strings.TrimSuffix(b.String(), ".")
}

func analyse(fi *fnInfo) {
	if fi.done || fi.busy {
		return
	}
	fi.busy = true
	fi.writesParam = map[int]bool{}
	analysed[fi.key.String()] = true
	a := &analysis{fi: fi, info: fi.pkg.TypesInfo, tainted: map[types.Object]int{}}
	d := fi.decl
	if d.Recv != nil && len(d.Recv.List) > 0 && len(d.Recv.List[0].Names) > 0 {
		if o := a.info.Defs[d.Recv.List[0].Names[0]]; o != nil && refLike(o.Type()) {
			a.tainted[o] = -1
		}
	}
	idx := 0
	for _, f := range d.Type.Params.List {
		for _, n := range f.Names {
			if o := a.info.Defs[n]; o != nil && refLike(o.Type()) {
				a.tainted[o] = idx
			}
			idx++
		}
		if len(f.Names) == 0 {
			idx++
		}
	}
	if d.Body == nil {
		fi.busy, fi.done = false, true
		return
	}
	// alias propagation to a fixpoint
	for changed := true; changed; {
		changed = false
		ast.Inspect(d.Body, func(n ast.Node) bool {
			taintLHS := func(lhs ast.Expr, rhs ast.Expr) {
				id, ok := lhs.(*ast.Ident)
				if !ok {
					return
				}
				o := a.info.Defs[id]
				if o == nil {
					o = a.info.Uses[id]
				}
				if o == nil || isPkgLevel(o) || !refLike(o.Type()) {
					return
				}
				if _, already := a.tainted[o]; already {
					return
				}
				if p, ok := a.sharedRoot(rhs); ok {
					a.tainted[o] = p
					changed = true
				}
			}
			switch s := n.(type) {
			case *ast.AssignStmt:
				if len(s.Lhs) == len(s.Rhs) {
					for i := range s.Lhs {
						taintLHS(s.Lhs[i], s.Rhs[i])
					}
				}
			case *ast.ValueSpec:
				if len(s.Names) == len(s.Values) {
					for i := range s.Names {
						taintLHS(s.Names[i], s.Values[i])
					}
				}
			case *ast.RangeStmt:
				if s.Value != nil {
					taintLHS(s.Value, s.X)
				}
			}
			return true
		})
	}
	// writes
	ast.Inspect(d.Body, func(n ast.Node) bool {
		switch s := n.(type) {
		case *ast.AssignStmt:
			for _, lhs := range s.Lhs {
				id, depth := rootIdent(lhs)
				if id == nil {
					continue
				}
				o := a.info.Uses[id]
				if o == nil {
					o = a.info.Defs[id]
				}
				if o == nil {
					continue
				}
				if isPkgLevel(o) {
					a.record(lhs.Pos(), "assignment to package-level variable "+exprString(lhs), -2)
				} else if p, ok := a.tainted[o]; ok && depth > 0 {
					a.record(lhs.Pos(), "assignment through shared value: "+exprString(lhs), p)
				}
			}
		case *ast.IncDecStmt:
			if p, ok := a.sharedRoot(s.X); ok {
				if id, depth := rootIdent(s.X); id != nil && (depth > 0 || p == -2) {
					a.record(s.Pos(), "inc/dec of shared value: "+exprString(s.X), p)
				}
			}
		case *ast.CallExpr:
			a.call(s)
		}
		return true
	})
	fi.busy, fi.done = false, true
}

func (a *analysis) call(c *ast.CallExpr) {
	// builtins
	if id, ok := c.Fun.(*ast.Ident); ok {
		if _, isB := a.info.Uses[id].(*types.Builtin); isB {
			switch id.Name {
			case "copy", "clear":
				if len(c.Args) > 0 {
					if p, ok := a.sharedRoot(c.Args[0]); ok {
						a.record(c.Pos(), id.Name+" into shared memory: "+exprString(c.Args[0]), p)
					}
				}
			case "append":
				if len(c.Args) > 0 {
					if p, ok := a.sharedRoot(c.Args[0]); ok {
						a.record(c.Pos(), "append to a shared slice (may write its spare capacity): "+exprString(c.Args[0]), p)
					}
				}
			case "delete":
				if len(c.Args) > 0 {
					if p, ok := a.sharedRoot(c.Args[0]); ok {
						a.record(c.Pos(), "delete from shared map: "+exprString(c.Args[0]), p)
					}
				}
			}
			return
		}
	}
	// resolve callee
	var obj types.Object
	var recvExpr ast.Expr
	switch f := c.Fun.(type) {
	case *ast.Ident:
		obj = a.info.Uses[f]
	case *ast.SelectorExpr:
		obj = a.info.Uses[f.Sel]
		if sel := a.info.Selections[f]; sel != nil {
			recvExpr = f.X
		}
	}
	fn, _ := obj.(*types.Func)
	if fn == nil {
		return
	}
	if callee := byObj[fn]; callee != nil {
		analyse(callee)
		if recvExpr != nil && callee.writesParam[-1] {
			if p, ok := a.sharedRoot(recvExpr); ok {
				a.record(c.Pos(), "call of "+callee.key.String()+" which writes through its receiver, on shared "+exprString(recvExpr), p)
			}
		}
		for i, arg := range c.Args {
			if callee.writesParam[i] {
				if p, ok := a.sharedRoot(arg); ok {
					a.record(c.Pos(), fmt.Sprintf("call of %s which writes through parameter %d, with shared %s", callee.key, i, exprString(arg)), p)
				}
			}
		}
		return
	}
	// external
	full := fn.FullName()
	if idxs, ok := externalMutators[full]; ok {
		for _, i := range idxs {
			if i >= 0 && i < len(c.Args) {
				if p, ok := a.sharedRoot(c.Args[i]); ok {
					a.record(c.Pos(), "call of "+full+" writing into shared "+exprString(c.Args[i]), p)
				}
			}
		}
	}
	// cipher.AEAD Seal/Open, hash Sum: first argument is appended to
	if recvExpr != nil && (fn.Name() == "Seal" || fn.Name() == "Open" || fn.Name() == "Sum") && len(c.Args) > 0 {
		if p, ok := a.sharedRoot(c.Args[0]); ok {
			a.record(c.Pos(), "call of "+fn.Name()+" appending to shared "+exprString(c.Args[0]), p)
		}
	}
	// a method with a POINTER receiver outside this module, called on shared memory: it may
	// write through the receiver unless it is known not to (e.g. (*rsa.PrivateKey).Precompute does)
	if recvExpr != nil && !mutatingMethodNames[fn.Name()] {
		if sig, ok := fn.Type().(*types.Signature); ok && sig.Recv() != nil {
			if _, isPtr := sig.Recv().Type().(*types.Pointer); isPtr && !readOnlyPtrMethods[full] && !immutableType(full) {
				if p, ok := a.sharedRoot(recvExpr); ok {
					a.record(c.Pos(), "pointer-receiver method "+full+" (not known to be read-only) on shared "+exprString(recvExpr), p)
				}
			}
		}
	}
	if recvExpr != nil && mutatingMethodNames[fn.Name()] {
		if p, ok := a.sharedRoot(recvExpr); ok {
			a.record(c.Pos(), "mutating method "+full+" on shared "+exprString(recvExpr), p)
		}
		if fn.Name() == "Read" && len(c.Args) == 1 {
			if p, ok := a.sharedRoot(c.Args[0]); ok {
				a.record(c.Pos(), "Read into shared "+exprString(c.Args[0]), p)
			}
		}
	}
}

var required = []string{
	"age.X25519Recipient.Wrap", "age.X25519Identity.Unwrap", "age.X25519Identity.unwrap",
	"age.ScryptRecipient.Wrap", "age.ScryptRecipient.WrapWithLabels", "age.ScryptIdentity.Unwrap", "age.ScryptIdentity.unwrap",
	"agessh.RSARecipient.Wrap", "agessh.RSAIdentity.Unwrap", "agessh.RSAIdentity.unwrap",
	"agessh.Ed25519Recipient.Wrap", "agessh.Ed25519Identity.Unwrap", "agessh.Ed25519Identity.unwrap",
	"age.multiUnwrap", "age.aeadEncrypt", "age.aeadDecrypt", "agessh.sshFingerprint", "age.Encrypt", "age.Decrypt",
}

func main() {
	repo := "/repo"
	out := "Effects.v"
	if len(os.Args) > 1 {
		out = os.Args[1]
	}
	cfg := &packages.Config{Mode: packages.NeedName | packages.NeedFiles | packages.NeedSyntax | packages.NeedTypes | packages.NeedTypesInfo | packages.NeedImports | packages.NeedDeps, Dir: repo}
	pkgs, err := packages.Load(cfg, "filippo.io/age", "filippo.io/age/agessh", "filippo.io/age/internal/stream", "filippo.io/age/internal/format")
	if err != nil {
		fmt.Fprintln(os.Stderr, err)
		os.Exit(2)
	}
	for _, p := range pkgs {
		if len(p.Errors) > 0 {
			fmt.Fprintln(os.Stderr, "load errors:", p.Errors)
			os.Exit(2)
		}
		fset = p.Fset
		for _, f := range p.Syntax {
			for _, d := range f.Decls {
				fd, ok := d.(*ast.FuncDecl)
				if !ok {
					continue
				}
				k := fnKey{pkg: p.PkgPath, name: fd.Name.Name}
				if fd.Recv != nil && len(fd.Recv.List) > 0 {
					t := fd.Recv.List[0].Type
					if s, ok := t.(*ast.StarExpr); ok {
						t = s.X
					}
					if id, ok := t.(*ast.Ident); ok {
						k.recv = id.Name
					}
				}
				fi := &fnInfo{key: k, decl: fd, pkg: p}
				funcs[k] = fi
				if o := p.TypesInfo.Defs[fd.Name]; o != nil {
					byObj[o] = fi
				}
			}
		}
	}
	for _, r := range required {
		isRoot[r] = true
	}
	var roots []*fnInfo
	for _, fi := range funcs {
		for _, r := range required {
			if fi.key.String() == r {
				roots = append(roots, fi)
			}
		}
	}
	sort.Slice(roots, func(i, j int) bool { return roots[i].key.String() < roots[j].key.String() })
	for _, fi := range roots {
		analyse(fi)
	}
	keep := findings
	var names []string
	for n := range analysed {
		names = append(names, n)
	}
	sort.Strings(names)
	var b strings.Builder
	b.WriteString("(* GENERATED by /verif/tools/effects from /repo's current source — do not edit. *)\n")
	b.WriteString("From Coq Require Import List String Bool.\nImport ListNotations.\nOpen Scope string_scope.\n\n")
	b.WriteString("Definition analysed_methods : list string :=\n  [")
	for i, n := range names {
		if i > 0 {
			b.WriteString(";\n   ")
		}
		b.WriteString("\"" + n + "\"")
	}
	b.WriteString("].\n\nDefinition required_methods : list string :=\n  [")
	for i, n := range required {
		if i > 0 {
			b.WriteString(";\n   ")
		}
		b.WriteString("\"" + n + "\"")
	}
	b.WriteString("].\n\n(* every write to memory reachable from a shared recipient / identity value or to a package-level variable *)\n")
	b.WriteString("Definition shared_writes : list (string * string) :=\n  [")
	for i, f := range keep {
		if i > 0 {
			b.WriteString(";\n   ")
		}
		b.WriteString("(\"" + strings.ReplaceAll(f.where, "\"", "'") + "\", \"" + strings.ReplaceAll(f.what, "\"", "'") + "\")")
	}
	b.WriteString("].\n\nLemma all_shared_writes_empty : shared_writes = [].\nProof. reflexivity. Qed.\n\n")
	b.WriteString("Definition required_methods_present : bool :=\n  forallb (fun m => existsb (String.eqb m) analysed_methods) required_methods.\n")
	b.WriteString("Lemma required_methods_ok : required_methods_present = true.\nProof. vm_compute. reflexivity. Qed.\n")
	if err := os.WriteFile(out, []byte(b.String()), 0o644); err != nil {
		fmt.Fprintln(os.Stderr, err)
		os.Exit(2)
	}
	fmt.Printf("effects: %d functions analysed, %d shared writes\n", len(names), len(keep))
	for _, f := range keep {
		fmt.Printf("  %s: %s\n", f.where, f.what)
	}
}
